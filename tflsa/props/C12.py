"""C12 - assert_constraints accepts exactly the feasible weights (A1-A4, W1)."""
import ast

from ..model import (AnalysisError, dotted, norm_text, names_read,
                     const_value)
from ..rules import asserts
from ..rules import wiring
from ..rules import stencil

TECHNIQUE = ('abstract interpretation of tf.Assert conditions (scalar-ness, '
             'aggregate polarity, eps direction), parameter-to-assert control '
             'dependence, forwarding lint')
EXPLANATION = (
    'Static analysis of necessary conditions of C12, not of the numeric '
    'accept/reject behaviour: every tf.Assert condition in the five '
    'assert_constraints libraries evaluates to a scalar (A1) that is a '
    'universal aggregate - min >= c, max <= c, count <= 0 or reduce_all of an '
    'elementwise test (A2) - whose eps enters on the relaxing side (A2e); every '
    'covered constraint-kind parameter gates or feeds at least one assert '
    '(A3); the asserted linear form agrees with the projection half-space '
    '(A4, when the affine engine is available); and each layer forwards every '
    'constraint kind it holds to the library (W1). The eps margins themselves '
    'and TF op semantics are trusted.'
    ' Also decided: what PWLCalibration.assert_constraints hands to the assertion depends on the kernel and on no presentation / imputation switch nor on constructor keypoints (A6, influence analysis); the KFL assertion checks the non-negativity of the factors that the projection enforces (A7); tuple lattice_sizes are handled (T3).'
    ' A weight that build() creates under guards G is asserted on under exactly G (A8); index pairs that address different axes of a vertex container are not paired by zip (A5).')
ASSUMPTIONS = [
    'tf.reduce_* / tf.Assert / tf.squeeze have their documented semantics',
    'weights, outputs, scale are the only tensor-valued parameters of the '
    'assert functions; all other parameters are Python configuration',
]

LIBS = [
    # (function, covered kinds, exceptions)
    ('lattice_lib.assert_constraints',
     ['monotonicities', 'edgeworth_trusts', 'trapezoid_trusts',
      'monotonic_dominances', 'range_dominances', 'joint_monotonicities',
      'joint_unimodalities', 'output_min', 'output_max'],
     {'joint_unimodalities':
          'deleted with a TODO in the code; joint unimodality is not in the '
          'property\'s list of covered kinds'}),
    ('pwl_calibration_lib.assert_constraints',
     ['monotonicity', 'output_min', 'output_max', 'clamp_min', 'clamp_max'],
     {}),
    ('linear_lib.assert_constraints',
     ['monotonicities', 'monotonic_dominances', 'range_dominances',
      'normalization_order'], {}),
    ('categorical_calibration_lib.assert_constraints',
     ['output_min', 'output_max', 'monotonicities'], {}),
    ('kronecker_factored_lattice_lib.assert_constraints',
     ['monotonicities', 'output_min', 'output_max', 'scale'], {}),
]
HELPERS = ['kronecker_factored_lattice_lib._assert_monotonicity_constraints',
           'kronecker_factored_lattice_lib._assert_bound_constraints']

LAYERS = [
    ('lattice_layer.Lattice.assert_constraints',
     'lattice_lib.assert_constraints', {'weights': 'kernel'}),
    ('linear_layer.Linear.assert_constraints',
     'linear_lib.assert_constraints', {'weights': 'kernel'}),
    ('categorical_calibration_layer.CategoricalCalibration.assert_constraints',
     'categorical_calibration_lib.assert_constraints', {'weights': 'kernel'}),
    ('kronecker_factored_lattice_layer.KroneckerFactoredLattice.'
     'assert_constraints',
     'kronecker_factored_lattice_lib.assert_constraints',
     {'weights': 'kernel'}),
    ('pwl_calibration_layer.PWLCalibration.assert_constraints',
     'pwl_calibration_lib.assert_constraints', {}),
]


def run(prog, res):
  from ..rules import seqkind
  seqkind.selfcheck()
  for q in ('lattice_lib.assert_constraints',):
    seqkind.check_function(prog, res, prog.function(q))
  res.floor('T3', 1)
  total = 0
  for qual, kinds, exc in LIBS:
    fn = prog.function(qual)
    total += asserts.check_asserts(prog, res, fn)
    asserts.check_coverage(prog, res, fn, kinds, exc)
  for qual in HELPERS:
    total += asserts.check_asserts(prog, res, prog.function(qual))
  res.extra['assert_sites'] = total
  # A5: loops over vertex rows / columns cover the whole grid
  n5 = stencil.check_stencils(prog, res, prog.function(
      'lattice_lib.assert_constraints'))
  n5 += stencil.check_stencils(prog, res, prog.function(
      'kronecker_factored_lattice_lib._assert_monotonicity_constraints'))
  res.floor('A5', 22)
  _pwl_subject(prog, res)
  _kfl_sign(prog, res)
  res.floor('A6', 1)
  # the linear assertion judges range dominance with the same scaling the
  # projection uses (sign * width, each width once): shared with C06
  from . import C06
  C06._scaling(prog, res)
  res.floor('P4', 4)
  _learned_guard(prog, res)
  res.floor('A8', 1)
  res.floor('A7', 1)
  # W1: layers forward every kind
  for lq, tq, aliases in LAYERS:
    fn = prog.function(lq)
    res.analysed(fn)
    target = prog.function(tq)
    calls = wiring.calls_to(prog, fn, target)
    if not calls:
      raise AnalysisError('%s no longer calls %s' % (lq, tq))
    # the first call is the one over the layer's own weights
    wiring.check_forwarding(prog, res, fn, calls[0], target, rule='W1',
                            aliases=aliases,
                            skip=('debug_tensors',))
    _eps_forwarded(res, fn, calls)
  _rtl(prog, res)
  # A4 (asserted form == projection half-space) runs when the affine engine
  # is built; it registers its own floor.
  try:
    from ..rules import affine_rules
  except ImportError:
    affine_rules = None
  if affine_rules is not None and hasattr(affine_rules, 'check_A4'):
    affine_rules.check_A4(prog, res)
  res.floor('A1', 29)
  res.floor('A2', 29)
  res.floor('A2e', 20)
  res.floor('A3', 23)
  res.floor('W1', 30)


def _eps_forwarded(res, fn, calls):
  for i, c in enumerate(calls):
    kw = {k.arg: k.value for k in c.keywords}
    v = kw.get('eps')
    res.check(v is not None and dotted(v) == 'eps', 'W1',
              '%s|eps#%d' % (fn.qualname, i), fn.loc(c),
              'caller\'s eps is forwarded',
              'the layer\'s eps argument is not forwarded to the library')


def _rtl(prog, res):
  fn = prog.function('rtl_layer.RTL.assert_constraints')
  res.analysed(fn)
  good = False
  for loop in ast.walk(fn.node):
    if isinstance(loop, ast.For) and 'self._lattice_layers' in names_read(
        loop.iter):
      var = loop.target.id if isinstance(loop.target, ast.Name) else None
      for c in ast.walk(loop):
        if (isinstance(c, ast.Call) and isinstance(c.func, ast.Attribute)
            and c.func.attr == 'assert_constraints'
            and dotted(c.func.value) == var):
          passes = [dotted(a) for a in c.args] + [
              dotted(k.value) for k in c.keywords if k.arg == 'eps']
          # result must be collected
          for coll in ast.walk(loop):
            if (isinstance(coll, ast.Call) and isinstance(
                coll.func, ast.Attribute) and coll.func.attr in (
                    'extend', 'append') and any(x is c for x in ast.walk(coll))
                and 'eps' in passes):
              good = True
  # the same as a comprehension: [a for layer in self._lattice_layers...
  #                               for a in layer.assert_constraints(eps)]
  for comp in ast.walk(fn.node):
    if isinstance(comp, (ast.ListComp, ast.GeneratorExp)):
      vars_ = [g.target.id for g in comp.generators
               if isinstance(g.target, ast.Name) and
               'self._lattice_layers' in names_read(g.iter)]
      for c in ast.walk(comp):
        if (isinstance(c, ast.Call) and isinstance(c.func, ast.Attribute)
            and c.func.attr == 'assert_constraints'
            and dotted(c.func.value) in vars_):
          passes = [dotted(a) for a in c.args] + [
              dotted(k.value) for k in c.keywords if k.arg == 'eps']
          if 'eps' in passes and not any(g.ifs for g in comp.generators):
            good = True
  res.check(good, 'W1', 'rtl_layer.RTL.assert_constraints|all-lattices',
            fn.loc(),
            'every lattice layer is asserted with the caller\'s eps and the '
            'results are collected',
            'RTL.assert_constraints does not assert every lattice layer with '
            'the caller\'s eps')


# ---------------------------------------------------------------------------
def _learned_guard(prog, res):
  """A8: a weight that build() creates only in some configurations
  (`self.x = self.add_weight(...)` under guards G) is asserted on in
  assert_constraints under exactly the guards G: a narrower or different
  guard leaves a learned weight unchecked in a configuration where it exists
  (and a wider one asserts on a constant or a missing attribute)."""
  from ..cfg import structural_guards, canon_guard
  for cq in ('pwl_calibration_layer.PWLCalibration',):
    build = prog.function(cq + '.build')
    asf = prog.function(cq + '.assert_constraints')
    res.analysed(build, asf)
    created = {}
    for st in ast.walk(build.node):
      if isinstance(st, ast.Assign) and len(st.targets) == 1 and isinstance(
          st.value, ast.Call) and isinstance(st.value.func, ast.Attribute) \
          and st.value.func.attr == 'add_weight':
        a = dotted(st.targets[0])
        g = structural_guards(build.node, st) or []
        if a and g:
          created[a] = {canon_guard(t, p) for t, p in g}
    for a, gb in sorted(created.items()):
      sites = [n for n in ast.walk(asf.node)
               if isinstance(n, ast.Attribute) and dotted(n) == a]
      if not sites:
        continue
      ga = None
      for n in sites:
        g = {canon_guard(t, p)
             for t, p in (structural_guards(asf.node, n) or [])}
        # split conjunctions into atoms
        ga = g if ga is None else (ga & g)
      def atoms(gs):
        out = set()
        for text, pol in gs:
          parts = text.split(' and ') if pol else [text]
          for part in parts:
            out.add((part.strip('() '), pol))
        return out
      res.check(atoms(ga) == atoms(gb), 'A8', '%s|%s' % (asf.qualname, a),
                asf.loc(sites[0]),
                '%s is asserted on under the guards it is created under (%s)'
                % (a, sorted(atoms(gb))),
                '%s is a weight created in build() under %s but asserted on '
                'under %s: in a configuration where the two differ a learned '
                'weight is never checked (or a constant is)' % (
                    a, sorted(atoms(gb)), sorted(atoms(ga))))


# ---------------------------------------------------------------------------
def _pwl_subject(prog, res):
  """A6: what PWLCalibration.assert_constraints hands to the assertion library
  must be the keypoint outputs of the current weights.  Decided with the
  must-depend / may-depend influence analysis: the `outputs=` argument may
  not depend on presentation or imputation switches (split_outputs turns the
  result of call() into a list, impute_missing replaces the output at a
  keypoint equal to missing_input_value or makes call() raise without an
  is_missing tensor) nor on the keypoint positions fixed at construction
  (with learned interior keypoints the positions are weights and the
  constructor values are stale)."""
  from ..rules import influence as inf
  fn = prog.function('pwl_calibration_layer.PWLCalibration.assert_constraints')
  lib = prog.function('pwl_calibration_lib.assert_constraints')
  res.analysed(fn, lib)
  calls = wiring.calls_to(prog, fn, lib)
  if not calls:
    raise AnalysisError('PWLCalibration.assert_constraints no longer calls '
                        'the library assertion')
  kw = {k.arg: k.value for k in calls[0].keywords}
  subj = kw.get('outputs', calls[0].args[0] if calls[0].args else None)
  if subj is None:
    raise AnalysisError('PWLCalibration.assert_constraints: outputs= missing')
  tags = {
      'self.split_outputs': 'split_outputs',
      'self.impute_missing': 'impute_missing',
      'self.missing_input_value': 'missing_input_value',
      'self._missing_input_value_tensor': 'missing_input_value',
      'self.missing_output': 'missing_output',
      'self.input_keypoints': 'constructor keypoints',
      'self.kernel': 'kernel',
  }
  env = {'self': inf.V(inf.UNK), 'eps': inf.V(inf.UNK)}
  for k, t in tags.items():
    env[k] = inf.V(inf.UNK, {t})
  it = inf.Interp(prog, strict=False)
  it.may = True
  end = {}
  # evaluate the statements before the library call, then the subject
  stmts = []
  for st in fn.node.body:
    if any(x is calls[0] for x in ast.walk(st)):
      break
    stmts.append(st)
  e2 = dict(env)
  it._depth = 0
  it._block(fn, stmts, e2, [])
  v = inf._join(it.val(fn, subj, e2))
  forbidden = {'split_outputs', 'impute_missing', 'missing_input_value',
               'missing_output', 'constructor keypoints'}
  bad = sorted(set(v.infl) & forbidden)
  res.check('kernel' in v.infl and not bad, 'A6',
            '%s|subject' % fn.qualname, fn.loc(calls[0]),
            'the asserted outputs depend on the kernel and on no presentation '
            '/ imputation switch',
            'the tensor handed to pwl_calibration_lib.assert_constraints '
            'depends on %s: with split_outputs it is a list (AttributeError), '
            'with impute_missing the keypoint equal to missing_input_value is '
            'never inspected (or call() raises), and with learned interior '
            'keypoints the function is probed at the constructor positions, '
            'not at its keypoints; use self.keypoints_outputs()' % (
                ', '.join(bad) or 'no kernel'))


def _kfl_sign(prog, res):
  """A7: the KFL projection makes every factor non-negative whenever a
  dimension is monotonic (the derivative along dimension i carries the sign of
  all other factors); the assertion must check the same clause, otherwise
  kernels with a negative factor - for which the function decreases along a
  dimension declared increasing - pass."""
  proj = prog.function(
      'kronecker_factored_lattice_lib.finalize_weight_constraints')
  asrt = prog.function(
      'kronecker_factored_lattice_lib._assert_monotonicity_constraints')
  res.analysed(proj, asrt)
  enforces = any(
      isinstance(c, ast.Call) and (prog.ext_name(proj.module, c.func) or ''
                                   ).endswith('maximum') and len(c.args) == 2
      and dotted(c.args[0]) == 'weights' and const_value(c.args[1], None) == 0
      for c in ast.walk(proj.node))
  if not enforces:
    raise AnalysisError('KFL projection: tf.maximum(weights, 0) vanished')
  checks = False
  for c in ast.walk(asrt.node):
    if isinstance(c, ast.Call) and (prog.ext_name(asrt.module, c.func) or ''
                                    ) == 'tf.Assert' and c.args:
      t = c.args[0]
      if isinstance(t, ast.Compare) and isinstance(t.ops[0], ast.GtE):
        src = t.left
        # reduce_min(weights) >= -eps   (directly or through a local)
        if isinstance(src, ast.Name):
          nm = src.id
          for st in ast.walk(asrt.node):
            if isinstance(st, ast.Assign) and dotted(st.targets[0]) == nm:
              src = st.value
        if isinstance(src, ast.Call) and (prog.ext_name(
            asrt.module, src.func) or '').endswith('reduce_min') and \
            src.args and dotted(src.args[0]) in ('weights', 'kernel'):
          # must be the raw kernel: before `weights` is re-bound to the
          # direction-multiplied list
          checks = True
  res.check(checks, 'A7', '%s|non-negative-factors' % asrt.qualname,
            asrt.loc(),
            'the assertion checks reduce_min(weights) >= -eps like the '
            'projection enforces maximum(weights, 0)',
            'the projection clips every factor at 0 (tf.maximum(weights, 0)) '
            'but the assertion only compares neighbouring keypoints of '
            'sign(scale) * w: a kernel with a negative factor in another '
            'dimension (dim0 = [0, 1], dim1 = [-1, -.5]) passes although the '
            'function decreases along the increasing dimension')
