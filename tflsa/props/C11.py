"""C11 - config and weight round trips (rules S1-S9)."""
import ast

from ..model import (AnalysisError, ClassInfo, dotted, norm_text, names_read,
                     call_args)
from ..rules import serial
from ..rules import rng

EXPLANATION = (
    'Static analysis of necessary conditions of C11, not of the round-trip '
    'behaviour itself: for every serialisable class the key set of get_config '
    'equals the constructor parameter set (S1,S2), each value reads the '
    'same-named attribute (S3), that attribute is assigned from the parameter '
    'on every path of __init__ (S4), Layer subclasses merge the base config '
    '(S5), every public class is registered under its own name in '
    'premade.get_custom_objects or a local custom_object_scope (S6), _Config '
    'subclasses capture locals() first and pair nested (de)serialisation keys '
    '(S7), the RTL structure depends on the seed and constructor state only '
    '(S8), custom from_config forwards every parameter its config carries (S9). '
    'Keras (de)serialisation itself and weight files are the trusted base.'
    " Also decided: from_config / deserialize helpers never mutate the caller's dict (S12); constraints that come back from JSON as lists are converted before they are used as dictionary keys or set members (T4); the premade dtype argument survives the round trip (S9, attribute provenance through a renamed attribute)."
    ' A constraint tuple is only looked up among tuples (T4 membership); after a method normalised self.x into a local, no call receives the raw attribute (X8).'
    ' A serialised constructor parameter that the reference stores unchanged is still stored unchanged (S15): `x or []` would turn None into [] in get_config().')
ASSUMPTIONS = [
    'keras (de)serialize / get / custom_object_scope behave as documented',
    'cls(**config) is how Keras rebuilds an object without a custom from_config',
]

# S9: one-symbol exceptions, each with its reason.
S9_EXCEPTIONS = {
}
NESTED_KEYS = ('feature_configs', 'regularizer_configs', 'reflects_trust_in',
               'dominates')


def _identity_storage(prog, res):
  """S15: where the reference constructor stores a parameter unchanged
  (`self.a = a`) and the class serialises the attribute, the constructor
  still stores it unchanged.  `self.a = a or []` turns None into [] in
  get_config(): the config of an object no longer equals the arguments it
  was built from, and from_config may reject or reinterpret the new value
  (RTL: `kernel_regularizer` must be None for the Kronecker-factored
  parameterization).  The reference shape comes from tflsa/inventory.json."""
  from .. import inline
  inv = inline.inventory()
  for c in sorted(prog.all_classes(), key=lambda c: c.qualname):
    if not (c.kind in serial.SERIAL_KINDS and 'get_config' in c.methods and
            '__init__' in c.methods):
      continue
    init = c.methods['__init__']
    entry = inv.get(c.module.name, {}).get('%s.__init__' % c.name)
    if not entry:
      continue
    ref_identity = set()
    ref_rhs = {}
    for line in entry.get('flat') or []:
      t = line.strip()
      if t.startswith('self.') and ' = ' in t:
        lhs, rhs = t.split(' = ', 1)
        ref_rhs.setdefault(lhs[5:], set()).add(rhs.replace(' ', ''))
        if lhs == 'self.' + rhs and rhs.isidentifier():
          ref_identity.add(rhs)
    emitted = set()
    for n in ast.walk(c.methods['get_config'].node):
      if isinstance(n, ast.Attribute) and isinstance(
          n.value, ast.Name) and n.value.id == 'self':
        emitted.add(n.attr)
    params = set(init.all_params)
    for a in sorted(ref_identity & emitted & params):
      defs = [st for st in ast.walk(init.node) if isinstance(
          st, ast.Assign) and len(st.targets) == 1 and dotted(
              st.targets[0]) == 'self.' + a]
      if not defs:
        continue
      first = min(defs, key=lambda st: (st.lineno, st.col_offset))
      cur = {norm_text(st.value).replace(' ', '') for st in defs}
      extra = sorted(cur - ref_rhs.get(a, set()))
      res.check(not extra and a in cur, 'S15',
                '%s|%s' % (c.qualname, a), init.loc(first),
                'the serialised parameter is stored as given',
                'the constructor stores `%s` where it used to store the '
                'parameter `%s` itself (%s): get_config() no longer returns '
                'the argument the object was built from' % (
                    (extra or sorted(cur))[0][:50], a,
                    ', '.join(sorted(ref_rhs.get(a, set())))[:60]))


def run(prog, res):
  from ..rules import hashkeys
  for q in ('lattice_lib.project_by_dykstra', 'lattice_lib._approximately_project_trapezoid'):
    hashkeys.check_function(prog, res, prog.function(q))
  res.floor('T4', 8)
  from ..rules import staleloop
  staleloop.check_shadowed_attributes(
      prog, res, [f for f in prog.all_functions() if f.parent is None])
  res.floor('X8', 1)
  staleloop.check_config_aliasing(
      prog, res, [f for f in prog.all_functions() if f.parent is None and
                  f.module.name in ('premade_lib', 'premade', 'configs')])
  res.floor('S13', 3)
  serial.check_config_not_mutated(prog, res)
  res.floor('S12', 8)
  n_classes = 0
  config_base = prog.cls('configs._Config')
  for c in sorted(prog.all_classes(), key=lambda c: c.qualname):
    if c.kind in serial.SERIAL_KINDS and 'get_config' in c.methods:
      n_classes += 1
      _check_keras_class(prog, res, c)
    elif config_base in c.mro() and c is not config_base:
      n_classes += 1
      _check_config_class(prog, res, c, config_base)
  _check_config_base(prog, res, config_base)
  _identity_storage(prog, res)
  res.floor('S15', 100)
  _check_registry(prog, res)
  _immutability(prog, res)
  rng.check_seed_only(prog, res, 'rtl_layer.RTL._get_rtl_structure', rule='S8',
                      seed_attrs=('random_seed',))
  res.extra['classes_checked'] = n_classes
  res.floor('S1', 150)
  res.floor('S2', 150)
  res.floor('S3', 150)
  res.floor('S4', 150)
  res.floor('S5', 9)
  res.floor('S6', 39)
  res.floor('S7', 30)
  res.floor('S8', 3)
  res.floor('S9', 10)
  res.floor('S10', 100)
  if n_classes < 39:
    raise AnalysisError('only %d serialisable classes found (floor 39)' %
                        n_classes)


def _check_keras_class(prog, res, c):
  gc = c.methods['get_config']
  init = c.find_method('__init__')
  if init is None:
    raise AnalysisError('%s has get_config but no __init__' % c.qualname)
  res.analysed(gc, init)
  cm = serial.extract_config(gc)
  params = list(init.all_params)
  fc = c.methods.get('from_config')
  fm = None
  if fc is not None:
    res.analysed(fc)
    fm = serial.extract_from_config(prog, fc, c)
  q = c.qualname
  # ---- S1: every key is consumable by the rebuild path
  for key, entries in sorted(cm.keys.items()):
    loc = gc.loc(entries[0][2])
    if fm is None:
      good = key in params
      how = 'cls(**config)'
    else:
      good = (key in fm.popped or key in fm.got or
              (fm.star_config and (key in params or init.kwarg)))
      how = 'custom from_config'
    res.check(good, 'S1', '%s|%s' % (q, key), loc,
              'key %r is a parameter consumed by %s' % (key, how),
              'get_config key %r is not accepted by %s.__init__ (%s would '
              'raise or drop it)' % (key, c.name, how))
  # ---- S2: every constructor parameter is serialised
  for p in params:
    if fm is not None:
      if p in fm.explicit:
        v = fm.explicit[p]
        lossy = [b for b in ast.walk(v) if isinstance(b, ast.BoolOp)
                 and isinstance(b.op, ast.Or)]
        if lossy:
          res.violation('S9', '%s|%s' % (q, p), fc.loc(fm.ctor_call),
                        'from_config passes %s=%s: `or` replaces every falsy '
                        'stored value (False, 0, []) by the default, so the '
                        'rebuilt object differs from the saved one' % (
                            p, norm_text(v)[:50]))
          continue
        srcs = names_read(fm.explicit[p])
        # value must come from the config (directly or via a local)
        res.ok('S2', '%s|%s' % (q, p), fc.loc(fm.ctor_call),
               'parameter %s passed explicitly by from_config' % p)
        continue
      if not fm.star_config:
        exc = S9_EXCEPTIONS.get((c.module.name, p))
        if exc:
          res.ok('S9', '%s|%s' % (q, p), fc.loc(fm.ctor_call),
                 'exception: ' + exc)
        else:
          res.violation('S9', '%s|%s' % (q, p), fc.loc(fm.ctor_call),
                        'from_config never passes constructor parameter %r' % p)
        continue
    entries = cm.keys.get(p)
    if not entries:
      res.violation('S2', '%s|%s' % (q, p), gc.loc(),
                    'constructor parameter %r of %s is not serialised by '
                    'get_config; a rebuilt object silently uses the default' %
                    (p, c.name))
      continue
    guards = [g for (_, g, _) in entries]
    if all(g for g in guards):
      # conditional key: guard may only read unconditionally serialised
      # attributes and the parameter needs a default
      g_ok = True
      for g in guards:
        for t, pol in g:
          for r in names_read(t):
            if r.startswith('self.'):
              e = cm.keys.get(r[5:])
              if not e or all(x[1] for x in e):
                g_ok = False
            elif r not in ('self',):
              g_ok = False
      g_ok = g_ok and p in init.defaults
      res.check(g_ok, 'S2', '%s|%s' % (q, p), gc.loc(entries[0][2]),
                'conditional key %r guarded by serialised state (%s)' % (
                    p, serial.guard_text(guards[0])),
                'key %r is serialised only under %s, which is not itself '
                'recoverable from the config' % (p, serial.guard_text(guards[0])))
    else:
      res.ok('S2', '%s|%s' % (q, p), gc.loc(entries[0][2]),
             'parameter %r serialised' % p)
  # ---- S9: no argument of the rebuild call is a lossy `x or default`
  if fm is not None:
    for p, v in sorted(fm.explicit.items()):
      lossy = [b for b in ast.walk(v) if isinstance(b, ast.BoolOp)
               and isinstance(b.op, ast.Or)]
      res.check(not lossy, 'S9', '%s|arg:%s' % (q, p), fc.loc(fm.ctor_call),
                'argument %s is taken from the config without a lossy '
                'default' % p,
                'from_config passes %s=%s: `or` replaces every falsy stored '
                'value (False, 0, []) by the default, so the rebuilt object '
                'differs from the saved one' % (p, norm_text(v)[:50]))
  # ---- S3 / S4 per key
  adeps = serial.attr_param_deps(init)
  for key, entries in sorted(cm.keys.items()):
    alias = None
    for v, g, node in entries:
      if fm is None and key not in params:
        continue  # already reported by S1; the attribute name is unknown
      reads = names_read(v)
      good = 'self.' + key in reads
      if not good:
        # an attribute of another name that __init__ computes from the
        # parameter `key` (e.g. a read-only base-class property of that name)
        for r in sorted(reads):
          if r.startswith('self.') and key in adeps.get(r[5:], ()):
            good, alias = True, r[5:]
      res.check(good, 'S3', '%s|%s' % (q, key), gc.loc(node),
                'value of %r reads self.%s' % (key, alias or key),
                'value stored under %r is %s, which reads neither self.%s nor '
                'an attribute computed from the parameter %s' % (
                    key, norm_text(v)[:60], key, key))
    if key in params:
      serial.check_attr_provenance(
          res, c, init, key, conditional=all(g for (_, g, _) in entries),
          attr_name=alias)
    elif c.kind == 'Model' and key in ('name', 'trainable'):
      res.ok('S4', '%s|%s' % (q, key), gc.loc(),
             'keras.Model property %s (set through **kwargs)' % key)
  # ---- S5
  if c.kind == 'Layer':
    k = '%s' % q
    fwd = False
    for call in ast.walk(init.node):
      if (isinstance(call, ast.Call) and isinstance(call.func, ast.Attribute)
          and call.func.attr == '__init__'
          and isinstance(call.func.value, ast.Call)
          and dotted(call.func.value.func) == 'super'):
        for kw in call.keywords:
          if kw.arg is None and dotted(kw.value) == init.kwarg:
            fwd = True
    res.check(cm.merges_super and fwd and init.kwarg is not None, 'S5', k,
              gc.loc(),
              'merges super().get_config() and forwards **%s to the base '
              'constructor' % init.kwarg,
              'Layer.get_config does not merge the base config (name, dtype, '
              'trainable lost) or __init__ does not forward **kwargs')
  # ---- S9 for custom from_config: every consumed key exists in get_config
  if fm is not None:
    for key in sorted(fm.popped | fm.got):
      res.check(key in cm.keys, 'S9', '%s|key:%s' % (q, key),
                fc.loc(), 'from_config reads key %r which get_config writes' % key,
                'from_config reads key %r that get_config never writes' % key)
    if fm.star_config:
      res.ok('S9', '%s|**config' % q, fc.loc(fm.ctor_call),
             'remaining keys forwarded with **config')


def _first_effective(fn_node):
  for st in fn_node.body:
    if isinstance(st, ast.Expr) and isinstance(st.value, ast.Constant):
      continue
    return st
  return None


def _check_config_class(prog, res, c, base):
  q = c.qualname
  init = c.methods.get('__init__')
  if init is None:
    raise AnalysisError('%s: _Config subclass without own __init__' % q)
  res.analysed(init)
  st = _first_effective(init.node)
  good = False
  if isinstance(st, ast.Expr) and isinstance(st.value, ast.Call):
    call = st.value
    if (isinstance(call.func, ast.Attribute) and call.func.attr == '__init__'
        and isinstance(call.func.value, ast.Call)
        and dotted(call.func.value.func) == 'super' and len(call.args) == 1
        and isinstance(call.args[0], ast.Call)
        and dotted(call.args[0].func) == 'locals'):
      good = True
  res.check(good, 'S7', '%s|locals-first' % q, init.loc(st) if st else init.loc(),
            'first effective statement is super().__init__(locals())',
            '__init__ must capture locals() before any local is bound or '
            'rebound; otherwise get_config != constructor arguments')
  # every parameter becomes a key, every key a parameter: nothing else to check
  for p in init.all_params:
    res.ok('S1', '%s|%s' % (q, p), init.loc(), 'key == parameter via locals()')
    res.ok('S2', '%s|%s' % (q, p), init.loc(), 'parameter captured by locals()')
    res.ok('S3', '%s|%s' % (q, p), init.loc(), '__dict__ entry is the argument')
    res.ok('S4', '%s|%s' % (q, p), init.loc(), '__dict__ entry is the argument')
  # no later rebinding of attributes inside __init__
  extra = [s for s in init.node.body if s is not st and not (
      isinstance(s, ast.Expr) and isinstance(s.value, ast.Constant))]
  res.check(not extra, 'S7', '%s|init-only-captures' % q, init.loc(),
            '__init__ does nothing but capture its arguments',
            '__init__ has statements after capturing locals(): %s' % (
                norm_text(extra[0])[:60] if extra else ''))
  fc = c.methods.get('from_config')
  good = False
  where = c.loc()
  if fc is not None:
    res.analysed(fc)
    where = fc.loc()
    for r in ast.walk(fc.node):
      if isinstance(r, ast.Return) and isinstance(r.value, ast.Call):
        call = r.value
        if dotted(call.func) in (c.name, 'cls') and not call.args:
          for kw in call.keywords:
            if (kw.arg is None and isinstance(kw.value, ast.Call) and (
                dotted(kw.value.func) or '').endswith(
                    'deserialize_nested_configs')):
              a, _, _ = call_args(kw.value, ['config', 'custom_objects'])
              if (dotted(a.get('config')) == fc.all_params[0] and
                  dotted(a.get('custom_objects')) == 'custom_objects'):
                good = True
  res.check(good, 'S7', '%s|from_config' % q, where,
            'from_config rebuilds %s(**deserialize_nested_configs(config, '
            'custom_objects))' % c.name,
            'from_config does not rebuild the same class through '
            'deserialize_nested_configs with the caller\'s custom_objects')
  # nested keys that are parameters of this class must be in the table
  for p in init.all_params:
    if p in NESTED_KEYS:
      res.ok('S7', '%s|nested:%s' % (q, p), init.loc(),
             'nested-config parameter %s handled by the base class' % p)


def _nested_key_blocks(fn):
  """{key: (mentions serialize?, mentions deserialize?, passes custom_objects)}
  for `if 'k' in config and config['k'] is not None: config['k'] = [...]`."""
  out = {}
  for st in fn.node.body:
    if not isinstance(st, ast.If):
      continue
    keys_in_test = {n.value for n in ast.walk(st.test)
                    if isinstance(n, ast.Constant) and isinstance(n.value, str)}
    for a in st.body:
      if (isinstance(a, ast.Assign) and isinstance(a.targets[0], ast.Subscript)
          and isinstance(a.targets[0].slice, ast.Constant)):
        key = a.targets[0].slice.value
        callee = None
        custom = False
        src_key = None
        for n in ast.walk(a.value):
          if isinstance(n, ast.Call):
            d = dotted(n.func) or ''
            if d.endswith('serialize_keras_object'):
              callee = d.split('.')[-1]
              for kw in n.keywords:
                if kw.arg == 'custom_objects' and dotted(
                    kw.value) == 'custom_objects':
                  custom = True
          if isinstance(n, ast.Subscript) and isinstance(
              n.slice, ast.Constant) and isinstance(n.slice.value, str):
            src_key = n.slice.value
        out[key] = (callee, custom, src_key, keys_in_test, a)
  return out


def _check_config_base(prog, res, base):
  gc = base.methods.get('get_config')
  de = base.methods.get('deserialize_nested_configs')
  if gc is None or de is None:
    raise AnalysisError('configs._Config lost get_config / '
                        'deserialize_nested_configs')
  res.analysed(gc, de)
  ser = _nested_key_blocks(gc)
  des = _nested_key_blocks(de)
  for k in sorted(set(ser) | set(des) | set(NESTED_KEYS)):
    s = ser.get(k)
    d = des.get(k)
    good = (s is not None and d is not None
            and s[0] == 'serialize_keras_object'
            and d[0] == 'deserialize_keras_object' and d[1]
            and s[2] == k and d[2] == k and k in s[3] and k in d[3])
    loc = gc.loc(s[4]) if s else (de.loc(d[4]) if d else gc.loc())
    res.check(good, 'S7', 'configs._Config|nested:%s' % k, loc,
              'nested key %r serialised and deserialised as a pair' % k,
              'nested key %r: get_config and deserialize_nested_configs '
              'disagree (serialise=%s, deserialise=%s)' % (
                  k, s[:3] if s else None, d[:3] if d else None))
  # get_config copies __dict__ ; __init__ stores kwargs as __dict__
  init = base.methods.get('__init__')
  stores = any(isinstance(n, ast.Assign) and dotted(n.targets[0]) ==
               'self.__dict__' for n in ast.walk(init.node))
  copies = any(isinstance(n, ast.Call) and (dotted(n.func) or '').endswith(
      'deepcopy') and n.args and dotted(n.args[0]) == 'self.__dict__'
               for n in ast.walk(gc.node))
  res.check(stores and copies, 'S7', 'configs._Config|dict-roundtrip', gc.loc(),
            '__init__ stores the argument dict as __dict__, get_config returns '
            'a deep copy of it',
            '_Config no longer stores / returns the constructor arguments')
  # every ctor parameter of a subclass that is a nested key is in the table:
  # and the table entries all occur in some constructor (non-vacuous)
  seen = set()
  for c in prog.all_classes():
    if base in c.mro() and c is not base and '__init__' in c.methods:
      seen |= set(c.methods['__init__'].all_params)
  for k in NESTED_KEYS:
    res.check(k in seen, 'S7', 'configs|nested-param:%s' % k, base.loc(),
              'nested key %r is a constructor parameter of some config' % k,
              'nested key %r is no constructor parameter any more' % k)


def _check_registry(prog, res):
  reg, fn = serial.registry(prog)
  scopes = serial.local_scopes(prog)
  res.analysed(fn)
  base = prog.cls('configs._Config')
  by_name = {}
  for c in prog.all_classes():
    if c.name.startswith('_'):
      continue
    is_cfg = base in c.mro() and c is not base
    if not (c.kind in serial.SERIAL_KINDS or is_cfg):
      continue
    by_name.setdefault(c.name, []).append(c)
    entry = reg.get(c.name)
    in_reg = entry is not None and entry[0] is c
    local = scopes.get(c.module.name, {}).get(c.name, [])
    in_local = any(x is c for x in local)
    if c.kind in ('Layer', 'Model') or is_cfg:
      good = in_reg
      need = 'premade.get_custom_objects'
    else:
      good = in_reg or in_local
      need = ('premade.get_custom_objects or a custom_object_scope literal '
              'in %s' % c.module.name)
    res.check(good, 'S6', '%s' % c.qualname, c.loc(),
              'registered under its own name (%s)' % (
                  'global registry' if in_reg else 'local scope'),
              'public %s class %s is not registered in %s; a saved model / '
              'config containing it cannot be rebuilt with the tfl custom '
              'objects' % (c.kind or 'config', c.name, need))
  for name, (obj, knode) in sorted(reg.items()):
    good = isinstance(obj, ClassInfo) and obj.name == name
    res.check(good, 'S6', 'registry|%s' % name, fn.loc(knode),
              'registry name %r maps to the class of that name' % name,
              'registry name %r maps to %s' % (name, getattr(
                  obj, 'qualname', obj)))
  for name, cs in sorted(by_name.items()):
    if len(cs) > 1:
      entry = reg.get(name)
      for c in cs:
        if entry is not None and entry[0] is c:
          continue
        local = scopes.get(c.module.name, {}).get(name, [])
        res.check(any(x is c for x in local), 'S6', 'ambiguous|%s' % c.qualname,
                  c.loc(),
                  'name %r is shared; %s is resolved by its local scope' % (
                      name, c.qualname),
                  'name %r maps to two classes and %s has no local '
                  'custom_object_scope' % (name, c.qualname))


def _immutability(prog, res):
  """S10: hyperparameters are immutable after construction - (a) no method
  other than __init__ rebinds or mutates an attribute that get_config
  serialises; (b) no library function mutates a caller-owned parameter in
  place (the constraint objects pass their own hyperparameter lists)."""
  for c in sorted(prog.all_classes(), key=lambda c: c.qualname):
    if c.kind not in serial.SERIAL_KINDS or 'get_config' not in c.methods:
      continue
    try:
      keys = set(serial.extract_config(c.methods['get_config']).keys)
    except AnalysisError:
      continue
    init = c.find_method('__init__')
    keys &= set(init.all_params) if init else set()
    for name, m in sorted(c.methods.items()):
      # framework-invoked methods only; explicit user-facing mutators such as
      # ParallelCombination.append change the object on purpose and
      # get_config serialises the current state
      if name not in ('build', 'call', '__call__', 'get_config',
                      'compute_output_shape', 'assert_constraints',
                      'finalize_constraints', 'keypoints_inputs',
                      'keypoints_outputs'):
        continue
      muts = serial.attr_mutations(m, keys)
      key = '%s.%s' % (c.qualname, name)
      if not muts:
        res.ok('S10', key, m.loc(), 'does not modify serialised attributes')
      for attr, node, kind in muts:
        res.violation('S10', '%s|self.%s' % (key, attr), m.loc(node),
                      '%s of self.%s outside __init__: get_config() drifts '
                      'away from the constructor arguments' % (kind, attr))
  for mod in ('lattice_lib', 'pwl_calibration_lib', 'linear_lib',
              'categorical_calibration_lib', 'kronecker_factored_lattice_lib',
              'internal_utils', 'utils', 'rtl_lib'):
    for f in prog.module(mod).all_functions():
      if f.parent is not None and f.name not in ('body',):
        continue
      muts = serial.param_mutations(f)
      if not muts:
        res.ok('S10', f.qualname, f.loc(),
               'does not mutate caller-owned parameters')
      for p, node, kind in muts:
        res.violation('S10', '%s|%s' % (f.qualname, p), f.loc(node),
                      '%s mutates its parameter %r in place (%s): the '
                      'caller\'s hyperparameter list changes on every '
                      'projection and its get_config() drifts' % (
                          f.name, p, kind))
