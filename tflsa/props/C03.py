"""C03 - premade / composed models stay monotone and bounded: wiring rules
(W1 W2 W3 W5 W6 O1 P1 P2 N0)."""
import ast

from ..model import (fold_ifexp, AnalysisError, FunctionInfo, ClassInfo, conditional_def, dotted, norm_text,
                     names_read, call_args, const_value, is_none)
from ..cfg import structural_guards
from ..rules import wiring
from ..rules import guards
from ..rules import roles
from ..rules import spelling
from ..rules import numeric_opts
from ..rules.wiring import FnCtx

TECHNIQUE = ('guard coverage over abstract configuration states, provenance '
             '(dataflow) lint of every builder-to-layer argument, role '
             'coherence, concrete evaluation of sibling monotonicity predicates '
             'over all spellings, range-enum flow')
EXPLANATION = (
    'Static analysis of the wiring clauses that are necessary for C03 (the '
    'per-layer guarantees C01/C04/C06/C07 are assumed; training dynamics and '
    'numeric feasibility are NOT decided): every constrained variable is '
    'created with its constraint object in every configuration state in which '
    'that constraint acts (W2/W3, exhaustive over abstract states); premade '
    'builders pass each layer hyperparameter from the config field of the same '
    'meaning (W1, by provenance of the argument value) with min/max roles '
    'coherent (P1/P2); calibrators feeding a lattice are built for the '
    'INPUT_TO_LATTICE range, final-stage layers for output_calibration ? '
    '[0,1] : model bounds, and the linear combination is a normalised '
    'weighted average whenever bounds or output calibration exist (W5); all '
    'implementations of "this feature is monotone" classify every spelling of '
    'the monotonicity option identically (W6); trust / dominance index tuples '
    'are oriented (main, conditional) / (dominant, weak) (O1); numeric options '
    'are never truth-tested (N0).')
ASSUMPTIONS = [
    'Keras re-applies variable.constraint after every optimizer update and '
    'restores variables with their constraints',
    'per-layer constraint semantics are as decided under C01/C04/C06/C07',
]

PL = 'premade_lib'


def run(prog, res):
  _w2_w3(prog, res)
  _w1_builders(prog, res)
  _w5(prog, res)
  _w6(prog, res)
  _o1(prog, res)
  fns = [f for f in prog.module(PL).all_functions() if f.parent is None]
  fns += [f for f in prog.module('premade').all_functions()
          if f.parent is None]
  n = 0
  for f in fns:
    n += roles.check_function_roles(prog, res, f)
    roles.check_clip_polarity(prog, res, f)
  numeric_opts.check(prog, res, fns)
  res.floor('P1', 30)
  res.floor('N0', 50)
  res.floor('W2', 12)
  res.floor('W3', 4)
  res.floor('W1', 45)
  res.floor('W5', 14)
  _w6_pairs(prog, res)
  res.floor('W6', 17)
  res.floor('O1', 3)


# ---------------------------------------------------------------------------
IMPLICATIONS = [
    ('self.edgeworth_trusts', 'self.monotonicities',
     'verify_hyperparameters raises unless the main feature is monotonic'),
    ('self.trapezoid_trusts', 'self.monotonicities',
     'verify_hyperparameters raises unless the main feature is monotonic'),
    ('self.monotonic_dominances', 'self.monotonicities',
     '_verify_dominances_hyperparameters requires monotonic dimensions'),
    ('self.range_dominances', 'self.monotonicities',
     '_verify_dominances_hyperparameters requires monotonic dimensions'),
]


def _implications_hold(prog, res):
  """The validated implications used by W3 are themselves checked: the
  lattice validator raises inside a loop over the premise parameter on a test
  that reads monotonicities."""
  v = prog.function('lattice_lib.verify_hyperparameters')
  d = prog.function('lattice_lib._verify_dominances_hyperparameters')
  res.analysed(v, d)
  def raises_on(fn, loop_param, read):
    for loop in ast.walk(fn.node):
      if isinstance(loop, ast.For):
        src = FnCtx.of(fn).expand_reads(loop.iter)
        if loop_param not in src:
          continue
        for st in ast.walk(loop):
          if isinstance(st, ast.If) and read in names_read(st.test) and any(
              isinstance(x, ast.Raise) for x in ast.walk(st)):
            return True
    return False
  for prem in ('edgeworth_trusts', 'trapezoid_trusts'):
    res.check(raises_on(v, prem, 'monotonicities'), 'W3',
              'implication|%s=>monotonicities' % prem, v.loc(),
              'validator rejects a %s entry whose main dimension is not '
              'monotonic' % prem,
              'lattice_lib.verify_hyperparameters no longer rejects %s on a '
              'non-monotonic main dimension; the guard of '
              'LatticeConstraints.__call__ relies on it' % prem)
  for prem in ('monotonic_dominances', 'range_dominances'):
    good = False
    for c in ast.walk(v.node):
      if isinstance(c, ast.Call) and prog.resolve_call(v, c) is d:
        reads = set()
        for a in c.args:
          reads |= names_read(a)
        if prem in reads and 'monotonicities' in reads:
          good = True
    good = good and raises_on(d, d.all_params[0], d.all_params[2])
    res.check(good, 'W3', 'implication|%s=>monotonicities' % prem, d.loc(),
              'validator rejects %s between non-monotonic dimensions' % prem,
              'the lattice validator no longer rejects %s between '
              'non-monotonic dimensions; the guard of LatticeConstraints.'
              '__call__ relies on it' % prem)


def _w2_w3(prog, res):
  _implications_hold(prog, res)
  # Lattice: constraint object built unconditionally; its __call__ guards
  lat_build = prog.function('lattice_layer.Lattice.build')
  lc = prog.cls('lattice_layer.LatticeConstraints')
  wiring.check_constrained_weight(
      prog, res, lat_build, 'LATTICE_KERNEL_NAME', lc,
      implications=IMPLICATIONS,
      covered_elsewhere={})
  callm = lc.methods['__call__']
  dyk = prog.function('lattice_lib.project_by_dykstra')
  fin = prog.function('lattice_lib.finalize_constraints')
  res.analysed(callm, dyk, fin)
  for target, cov in ((dyk, {}),
                      (fin, {'output_min': 'bounds are clipped unconditionally '
                                           'after the guarded block (rule W4 '
                                           'of C01)',
                             'output_max': 'same'})):
    calls = wiring.calls_to(prog, callm, target)
    if len(calls) != 1:
      raise AnalysisError('LatticeConstraints.__call__: expected one call of '
                          '%s' % target.name)
    guards.check_guard(prog, res, callm, calls[0], target, rule='W3',
                       covered_elsewhere=cov, implications=IMPLICATIONS,
                       switches=('self.enforce_strict_monotonicity',))
  # the unconditional bound clips of LatticeConstraints.__call__
  for bound, op in (('output_min', 'tf.maximum'), ('output_max', 'tf.minimum')):
    good = False
    for st in callm.node.body:
      if isinstance(st, ast.If) and isinstance(st.test, ast.Compare) and \
          dotted(st.test.left) == 'self.' + bound and isinstance(
              st.test.ops[0], ast.IsNot) and is_none(st.test.comparators[0]):
        for c in ast.walk(st):
          if isinstance(c, ast.Call) and prog.ext_name(
              callm.module, c.func) == op and any(
                  dotted(a) == 'self.' + bound for a in c.args):
            good = True
    res.check(good, 'W3', '%s|final-clip:%s' % (callm.qualname, bound),
              callm.loc(),
              'top-level `if self.%s is not None: w = %s(w, self.%s)`' % (
                  bound, op, bound),
              'LatticeConstraints.__call__ lost its unconditional clip to '
              '%s; bounds would only be enforced inside the monotonicity '
              'guard' % bound)
  # PWL
  pwl_build = prog.function('pwl_calibration_layer.PWLCalibration.build')
  pc = prog.cls('pwl_calibration_layer.PWLCalibrationConstraints')
  wiring.check_constrained_weight(prog, res, pwl_build,
                                  'PWL_CALIBRATION_KERNEL_NAME', pc)
  nb = prog.cls('pwl_calibration_layer.NaiveBoundsConstraints')
  wiring.check_constrained_weight(prog, res, pwl_build,
                                  'PWL_CALIBRATION_MISSING_OUTPUT_NAME', nb)
  # categorical, linear
  cat_build = prog.function(
      'categorical_calibration_layer.CategoricalCalibration.build')
  cc = prog.cls('categorical_calibration_layer.'
                'CategoricalCalibrationConstraints')
  wiring.check_constrained_weight(prog, res, cat_build,
                                  'CATEGORICAL_CALIBRATION_KERNEL_NAME', cc)
  lin_build = prog.function('linear_layer.Linear.build')
  lnc = prog.cls('linear_layer.LinearConstraints')
  wiring.check_constrained_weight(
      prog, res, lin_build, 'LINEAR_LAYER_KERNEL_NAME', lnc,
      state_filter={'self.monotonicities': ('allzero', 'nonzero')})
  _linear_monotonicities_is_list(prog, res)
  # KFL (shared with C07)
  kfl_build = prog.function(
      'kronecker_factored_lattice_layer.KroneckerFactoredLattice.build')
  kc = prog.cls('kronecker_factored_lattice_layer.'
                'KroneckerFactoredLatticeConstraints')
  sc = prog.cls('kronecker_factored_lattice_layer.ScaleConstraints')
  wiring.check_constrained_weight(prog, res, kfl_build, 'KFL_KERNEL_NAME', kc)
  wiring.check_constrained_weight(prog, res, kfl_build, 'KFL_SCALE_NAME', sc)
  kcall = kc.methods['__call__']
  fw = prog.function('kronecker_factored_lattice_lib.'
                     'finalize_weight_constraints')
  calls = wiring.calls_to(prog, kcall, fw)
  if len(calls) != 1:
    raise AnalysisError('KFL constraints __call__ changed shape')
  guards.check_guard(prog, res, kcall, calls[0], fw, rule='W3')
  # forwarding layer -> constraint object (all kinds reach the projection)
  for build, cls in ((lat_build, lc), (pwl_build, pc), (cat_build, cc),
                     (lin_build, lnc), (kfl_build, kc), (kfl_build, sc)):
    for i, c in enumerate(wiring.calls_to(prog, build, cls)):
      wiring.check_forwarding(
          prog, res, build, c, cls, rule='W1',
          aliases={'enforce_strict_monotonicity': 'monotonic_at_every_step',
                   'lengths': ('_lengths', 'input_keypoints'),
                   'output_min_constraints': '_output_min_constraints',
                   'output_max_constraints': '_output_max_constraints'},
          literal_ok={'enforce_strict_monotonicity':
                          'the strict copy used by finalize_constraints()',
                      'num_projection_iterations':
                          'the strict copy uses a fixed iteration count'},
          label='%s->%s#%d' % (build.qualname, cls.name, i))


def _linear_monotonicities_is_list(prog, res):
  """Justifies the state filter above: every assignment of
  Linear.monotonicities in __init__ stores a list (never None)."""
  init = prog.function('linear_layer.Linear.__init__')
  from ..model import self_attr_assigns
  vals = [v for a, v, st in self_attr_assigns(init) if a == 'monotonicities']
  good = bool(vals)
  for v in vals:
    is_list = (isinstance(v, ast.Call) and dotted(v.func) == 'list') or (
        isinstance(v, ast.BinOp) and isinstance(v.op, ast.Mult)
        and isinstance(v.left, ast.List))
    good = good and is_list
  res.check(good, 'W2', 'linear_layer.Linear.__init__|monotonicities-list',
            init.loc(),
            'self.monotonicities is always a list of num_input_dims entries',
            'Linear.__init__ may store a non-list in self.monotonicities; '
            'the guard analysis of Linear.build assumed a list')


# ---------------------------------------------------------------------------
def attr_atoms(prog, fn, expr, depth=0, seen=None):
  """Attribute base names (x.<attr>) the value of expr derives from, following
  local definitions and descending into resolved repo helper functions."""
  seen = seen if seen is not None else set()
  ctx = FnCtx.of(fn)
  out = set()
  todo = [expr]
  at = ctx.cfg.node_containing(expr)
  exprs = [expr]
  # expand locals to their defining expressions
  names = set()
  for r in names_read(expr):
    if not r.startswith('self.'):
      names.add(r)
  frontier = list(names)
  visited = set()
  while frontier:
    nm = frontier.pop()
    if nm in visited:
      continue
    visited.add(nm)
    if at is None:
      continue
    # values accumulated with name.append(...) / name.extend(...)
    for c in ast.walk(fn.node):
      if isinstance(c, ast.Call) and isinstance(c.func, ast.Attribute) and \
          c.func.attr in ('append', 'extend') and dotted(c.func.value) == nm:
        exprs.extend(c.args)
        for r in c.args:
          for rr in names_read(r):
            if not rr.startswith('self.') and rr not in visited:
              frontier.append(rr)
    for d, v in ctx.rd.def_exprs(at, nm):
      node = ctx.cfg.nodes[d]
      if v is None and node.kind == 'iter':
        v = node.stmt.iter
      if v is None and node.kind == 'stmt' and isinstance(
          node.stmt, ast.Assign):
        v = node.stmt.value
      if v is not None:
        exprs.append(v)
        for r in names_read(v):
          if not r.startswith('self.') and r not in visited:
            frontier.append(r)
  for e in exprs:
    for n in ast.walk(e):
      if isinstance(n, ast.Attribute):
        out.add(n.attr)
      if isinstance(n, ast.Call) and depth < 2:
        r = prog.resolve_call(fn, n)
        if isinstance(r, FunctionInfo) and r.qualname not in seen and \
            r.module.name in (PL, 'premade'):
          seen.add(r.qualname)
          for m in ast.walk(r.node):
            if isinstance(m, ast.Attribute):
              out.add(m.attr)
  return out


# builder -> layer argument provenance: layer parameter -> config attribute(s)
# one of which the value must derive from.  Each line is a necessary condition
# of C03: the layer only enforces what it is told.
PROVENANCE = {
    ('build_multi_unit_calibration_layers', 'PWLCalibration'): {
        'input_keypoints': ('pwl_calibration_input_keypoints',),
        'clamp_min': ('pwl_calibration_clamp_min',),
        'clamp_max': ('pwl_calibration_clamp_max',),
        'missing_input_value': ('default_value',),
        'impute_missing': ('default_value',),
        'monotonicity': ('monotonicity',),
        'convexity': ('pwl_calibration_convexity',),
        'input_keypoints_type': ('pwl_calibration_input_keypoints_type',),
        'output_min': ('output_min', 'lattice_size'),
        'output_max': ('output_max', 'lattice_size'),
    },
    ('build_multi_unit_calibration_layers', 'CategoricalCalibration'): {
        'num_buckets': ('num_buckets',),
        'monotonicities': ('monotonicity',),
        'default_input_value': ('default_value',),
        'output_min': ('output_min', 'lattice_size'),
        'output_max': ('output_max', 'lattice_size'),
    },
    ('build_lattice_layer', 'Lattice'): {
        'lattice_sizes': ('lattice_size',),
        'monotonicities': ('monotonicity',),
        'unimodalities': ('unimodality',),
        'edgeworth_trusts': ('reflects_trust_in',),
        'trapezoid_trusts': ('reflects_trust_in',),
        'monotonic_dominances': ('dominates',),
        'output_min': ('output_min',),
        'output_max': ('output_max',),
        'interpolation': ('interpolation',),
    },
    ('build_lattice_layer', 'KroneckerFactoredLattice'): {
        'lattice_sizes': ('lattice_size',),
        'monotonicities': ('monotonicity',),
        'num_terms': ('num_terms',),
        'output_min': ('output_min',),
        'output_max': ('output_max',),
    },
    ('build_linear_layer', 'Linear'): {
        'monotonicities': ('monotonicity',),
        'monotonic_dominances': ('dominates',),
        'use_bias': ('use_bias',),
    },
    ('build_rtl_layer', 'RTL'): {
        'num_lattices': ('num_lattices',),
        'lattice_rank': ('lattice_rank',),
        'lattice_size': ('lattice_size',),
        'output_min': ('output_min',),
        'output_max': ('output_max',),
        'random_seed': ('random_seed',),
        'interpolation': ('interpolation',),
        'parameterization': ('parameterization',),
        'num_terms': ('num_terms',),
    },
    ('build_output_calibration_layer', 'PWLCalibration'): {
        'output_min': ('output_min',),
        'output_max': ('output_max',),
        'input_keypoints_type': ('output_calibration_input_keypoints_type',),
    },
    ('build_linear_combination_layer', 'Linear'): {
        'use_bias': ('use_bias',),
    },
}
LITERALS = {
    # (builder, layer, param): (value, reason)
    ('build_lattice_layer', 'Lattice', 'clip_inputs'):
        (False, 'calibrators already map into the lattice input range'),
    ('build_lattice_layer', 'KroneckerFactoredLattice', 'clip_inputs'):
        (False, 'calibrators already map into the lattice input range'),
    ('build_rtl_layer', 'RTL', 'clip_inputs'):
        (False, 'calibrators already map into the lattice input range'),
    ('build_aggregation_layer', 'Lattice', 'clip_inputs'):
        (False, 'middle calibrators map into the lattice input range'),
    ('build_output_calibration_layer', 'PWLCalibration', 'monotonicity'):
        (1, 'output calibration must preserve the direction of every '
            'feature'),
}


def _w1_builders(prog, res):
  mod = prog.module(PL)
  for (bname, lname), table in sorted(PROVENANCE.items()):
    fn = prog.function('%s.%s' % (PL, bname))
    res.analysed(fn)
    calls = []
    for c in ast.walk(fn.node):
      if isinstance(c, ast.Call):
        r = prog.resolve_call(fn, c)
        if isinstance(r, ClassInfo) and r.name == lname:
          calls.append((c, r))
    if not calls:
      raise AnalysisError('%s no longer constructs %s' % (bname, lname))
    for c, cls in calls:
      init, params = wiring.callee_params(cls)
      bound, _, star = call_args(c, params)
      for p, attrs in sorted(table.items()):
        key = '%s->%s|%s' % (fn.qualname, lname, p)
        if p not in bound:
          res.violation('W1', key, fn.loc(c),
                        '%s is built without %s=; the layer default %s is '
                        'used instead of the config field %s' % (
                            lname, p, norm_text(init.defaults[p])
                            if p in init.defaults else '<none>',
                            '/'.join(attrs)))
          continue
        atoms = attr_atoms(prog, fn, bound[p])
        res.check(bool(set(attrs) & atoms), 'W1', key, fn.loc(c),
                  '%s <- %s (derives from config field %s)' % (
                      p, norm_text(bound[p])[:40],
                      '/'.join(sorted(set(attrs) & atoms))),
                  '%s=%s of %s does not derive from the config field %s '
                  '(derives from %s)' % (
                      p, norm_text(bound[p])[:40], lname, '/'.join(attrs),
                      sorted(atoms)[:6]))
  for (bname, lname, p), (val, why) in sorted(LITERALS.items()):
    fn = prog.function('%s.%s' % (PL, bname))
    found = False
    for c in ast.walk(fn.node):
      if isinstance(c, ast.Call):
        r = prog.resolve_call(fn, c)
        if isinstance(r, ClassInfo) and r.name == lname:
          found = True
          kw = {k.arg: k.value for k in c.keywords}
          v = kw.get(p)
          key = '%s->%s|%s' % (fn.qualname, lname, p)
          res.check(v is not None and const_value(v, 'x') == val, 'W1', key,
                    fn.loc(c), '%s=%r (%s)' % (p, val, why),
                    '%s of %s must be the literal %r (%s); found %s' % (
                        p, lname, val, why,
                        norm_text(v) if v is not None else '<default>'))
    if not found:
      raise AnalysisError('%s no longer constructs %s' % (bname, lname))


# ---------------------------------------------------------------------------
def _enum_literal(expr):
  d = dotted(expr)
  if d and d.split('.')[-1].isupper():
    return d.split('.')[-1]
  return None


def _final_range_expr(expr):
  """IfExp(model_config.output_calibration, INPUT_TO_FINAL_CALIBRATION,
  MODEL_OUTPUT)."""
  return (isinstance(expr, ast.IfExp)
          and (dotted(expr.test) or '').endswith('.output_calibration')
          and _enum_literal(expr.body) == 'INPUT_TO_FINAL_CALIBRATION'
          and _enum_literal(expr.orelse) == 'MODEL_OUTPUT')


def _local_value(fn, call, v):
  """the expression a local name holds at `call` (single definition, or the
  two arms of `x = A if c else B` in its normal form)"""
  if isinstance(v, ast.Name):
    ctx = FnCtx.of(fn)
    at = ctx.cfg.node_containing(call)
    defs = ctx.rd.def_exprs(at, v.id)
    if len(defs) == 1 and defs[0][1] is not None:
      return defs[0][1]
    cd = conditional_def(fn.node, v.id)
    if len(defs) == 2 and cd is not None and {id(d[1]) for d in defs} == {
        id(cd[1]), id(cd[2])}:
      return ast.IfExp(test=cd[0], body=cd[1], orelse=cd[2])
  return v


def _range_arg(fn, call, pname='layer_output_range'):
  kw = {k.arg: k.value for k in call.keywords}
  v = kw.get(pname)
  if v is None:
    return None
  return _local_value(fn, call, v)


def _w5(prog, res):
  # (1) producers of lattice inputs use INPUT_TO_LATTICE
  sites = [
      ('premade.CalibratedLattice.__init__', 'build_calibration_layers',
       'lattice'),
      ('premade_lib.build_calibrated_lattice_ensemble_layer',
       'build_multi_unit_calibration_layers', 'lattice'),
      ('premade_lib.build_calibrated_lattice_ensemble_layer',
       'build_calibration_layers', 'lattice'),
      ('premade.CalibratedLinear.__init__', 'build_calibration_layers',
       'final'),
      ('premade.CalibratedLattice.__init__', 'build_lattice_layer', 'final'),
      ('premade_lib.build_lattice_ensemble_layer', 'build_lattice_layer',
       'final'),
      ('premade.AggregateFunction.__init__', 'build_aggregation_layer',
       'final'),
  ]
  for fq, callee, want in sites:
    fn = prog.function(fq)
    res.analysed(fn)
    target = prog.function('%s.%s' % (PL, callee))
    calls = wiring.calls_to(prog, fn, target)
    if not calls:
      raise AnalysisError('%s no longer calls %s' % (fq, callee))
    for c in calls:
      v = _range_arg(fn, c)
      key = '%s->%s|layer_output_range' % (fq, callee)
      if want == 'lattice':
        res.check(v is not None and _enum_literal(v) == 'INPUT_TO_LATTICE',
                  'W5', key, fn.loc(c),
                  'calibrators that feed a lattice are built for '
                  'INPUT_TO_LATTICE',
                  'calibrators feeding an unclipped lattice are built for %s '
                  'instead of INPUT_TO_LATTICE: their outputs leave '
                  '[0, lattice_size-1]' % (norm_text(v) if v is not None
                                           else '<missing>'))
      else:
        res.check(v is not None and _final_range_expr(v), 'W5', key,
                  fn.loc(c),
                  'final stage range = INPUT_TO_FINAL_CALIBRATION if '
                  'output_calibration else MODEL_OUTPUT',
                  'final-stage layer range is %s; expected '
                  'INPUT_TO_FINAL_CALIBRATION if model_config.'
                  'output_calibration else MODEL_OUTPUT' % (
                      norm_text(v)[:80] if v is not None else '<missing>'))
  # build_rtl_layer computes its own final range
  fn = prog.function(PL + '.build_rtl_layer')
  orf = prog.function(PL + '._output_range')
  for c in wiring.calls_to(prog, fn, orf):
    v = c.args[0] if c.args else None
    v = _local_value(fn, c, v)
    res.check(v is not None and _final_range_expr(v), 'W5',
              '%s|rtl-final-range' % fn.qualname, fn.loc(c),
              'RTL output range = INPUT_TO_FINAL_CALIBRATION if '
              'output_calibration else MODEL_OUTPUT',
              'RTL layer output range is %s' % (norm_text(v)[:80] if v
                                                is not None else '?'))
  # (2) _output_range: enum member -> (min, max)
  want = {
      'INPUT_TO_LATTICE': ('0.0', 'feature_config.lattice_size - 1.0'),
      'INPUT_TO_FINAL_CALIBRATION': ('0.0', '1.0'),
      'MODEL_OUTPUT': ('model_config.output_min', 'model_config.output_max'),
  }
  res.analysed(orf)
  branches = {}
  cur = None
  for st in orf.node.body:
    if isinstance(st, ast.If):
      cur = st
      break
  while cur is not None:
    m = None
    for n in ast.walk(cur.test):
      e = _enum_literal(n) if isinstance(n, ast.Attribute) else None
      if e:
        m = e
    if m:
      vals = {}
      for st in cur.body:
        if isinstance(st, ast.Assign):
          for t in st.targets:
            if isinstance(t, ast.Name):
              vals[t.id] = norm_text(st.value)
            # chained: output_init_min = output_min = 0.0
          if len(st.targets) > 1:
            for t in st.targets:
              if isinstance(t, ast.Name):
                vals[t.id] = norm_text(st.value)
      branches[m] = vals
    if len(cur.orelse) == 1 and isinstance(cur.orelse[0], ast.If):
      cur = cur.orelse[0]
    else:
      break
  for m, (lo, hi) in sorted(want.items()):
    got = branches.get(m, {})
    res.check(got.get('output_min') == lo and got.get('output_max') == hi,
              'W5', '%s|%s' % (orf.qualname, m), orf.loc(),
              '%s -> [%s, %s]' % (m, lo, hi),
              '%s maps to [%s, %s], expected [%s, %s]' % (
                  m, got.get('output_min'), got.get('output_max'), lo, hi))
  # (3) output calibration consumes [0, 1]
  oc = prog.function(PL + '.build_output_calibration_layer')
  res.analysed(oc)
  good = False
  for st in ast.walk(oc.node):
    if isinstance(st, ast.Assign) and dotted(st.targets[0]) == \
        'input_keypoints' and isinstance(st.value, ast.Call) and \
        prog.ext_name(oc.module, st.value.func) == 'np.linspace':
      a = st.value.args
      good = len(a) >= 2 and const_value(a[0]) == 0.0 and const_value(
          a[1]) == 1.0
  res.check(good, 'W5', '%s|input-range' % oc.qualname, oc.loc(),
            'output calibration keypoints span [0, 1] = '
            'INPUT_TO_FINAL_CALIBRATION range',
            'output calibration input keypoints do not span [0.0, 1.0], the '
            'range final-stage layers are bounded to')
  # (4) linear combination / calibrated linear are normalised averages when
  # bounded
  lc = prog.function(PL + '.build_linear_combination_layer')
  res.analysed(lc)
  env_states = []
  ok = True
  for oc_state in ('false', 'true'):
    for smin in ('none', 'zero', 'nonzero'):
      for smax in ('none', 'zero', 'nonzero'):
        env = {'model_config.output_calibration': guards.Val('flag', oc_state),
               'model_config.output_min': guards.Val('bound', smin),
               'model_config.output_max': guards.Val('bound', smax),
               'model_config.use_bias': guards.Val('flag', 'false')}
        stmts = guards.trace(prog, lc, env, both_on_unknown=True)
        norm = None
        for st in stmts:
          if isinstance(st, ast.Assign) and dotted(st.targets[0]) == \
              'normalization_order':
            norm = const_value(st.value, 'x')
        bounded = oc_state == 'true' or smin != 'none' or smax != 'none'
        if (norm == 1) != bounded:
          ok = False
        env_states.append((oc_state, smin, smax, norm))
  res.check(ok, 'W5', '%s|normalised-iff-bounded' % lc.qualname, lc.loc(),
            'normalization_order = 1 in exactly the %d of 18 states with '
            'bounds or output calibration' % sum(
                1 for e in env_states if e[3] == 1),
            'the linear combination is not L1-normalised in every state with '
            'output bounds or output calibration (states: %s)' % [
                e for e in env_states if (e[3] == 1) != (
                    e[0] == 'true' or e[1] != 'none' or e[2] != 'none')][:3])
  # raise on bias when bounded
  has_raise = any(isinstance(n, ast.If) and 'model_config.use_bias' in
                  {dotted(x) for x in ast.walk(n.test)} and any(
                      isinstance(r, ast.Raise) for r in n.body)
                  for n in ast.walk(lc.node))
  res.check(has_raise, 'W5', '%s|no-bias-when-bounded' % lc.qualname,
            lc.loc(), 'a bias with bounds / output calibration is rejected',
            'build_linear_combination_layer no longer rejects use_bias '
            'together with bounds / output calibration')
  mono = None
  for c in ast.walk(lc.node):
    if isinstance(c, ast.Call):
      r = prog.resolve_call(lc, c)
      if isinstance(r, ClassInfo) and r.name == 'Linear':
        kw = {k.arg: k.value for k in c.keywords}
        mono = kw.get('monotonicities')
  good = (mono is not None and isinstance(mono, ast.BinOp)
          and isinstance(mono.left, ast.List) and len(mono.left.elts) == 1
          and const_value(mono.left.elts[0]) in (1, 'increasing'))
  res.check(good, 'W5', '%s|all-increasing' % lc.qualname, lc.loc(),
            'every lattice output enters the combination increasingly',
            'the linear combination no longer constrains every weight to be '
            'non-negative: %s' % (norm_text(mono) if mono is not None
                                  else '<missing>'))
  # CalibratedLinear.weighted_average
  cl = prog.function('premade.CalibratedLinear.__init__')
  wa = None
  for st in ast.walk(cl.node):
    if isinstance(st, ast.Assign) and dotted(st.targets[0]) == \
        'weighted_average':
      wa = st.value
  ok = wa is not None
  if ok:
    for oc_state in ('false', 'true'):
      for smin in ('none', 'zero', 'nonzero'):
        for smax in ('none', 'zero', 'nonzero'):
          env = {'model_config.output_calibration':
                     guards.Val('flag', oc_state),
                 'model_config.output_min': guards.Val('bound', smin),
                 'model_config.output_max': guards.Val('bound', smax)}
          t = guards.Logic(prog, cl, env).truth(wa)
          bounded = oc_state == 'true' or smin != 'none' or smax != 'none'
          if t is None or t != bounded:
            ok = False
  res.check(ok, 'W5', '%s|weighted_average' % cl.qualname, cl.loc(),
            'weighted_average <=> bounds or output calibration (18 states)',
            'CalibratedLinear.weighted_average is not equivalent to "output '
            'bounds or output calibration are set": %s' % (
                norm_text(wa) if wa is not None else '<missing>'))
  bl = prog.function(PL + '.build_linear_layer')
  res.analysed(bl)
  # by value: what reaches linear_layer.Linear(...) when weighted_average is
  # set (whatever default / override / branch form assigns it)
  stmts = guards.trace(prog, bl, {'weighted_average': guards.Val(
      'flag', 'true')}, both_on_unknown=True)
  ctor = None
  for st in stmts:
    for c in ast.walk(st):
      if isinstance(c, ast.Call) and isinstance(
          prog.resolve_call(bl, c), ClassInfo) and prog.resolve_call(
              bl, c).qualname == 'linear_layer.Linear':
        ctor = c
  if ctor is None:
    raise AnalysisError('build_linear_layer: linear_layer.Linear(...) not '
                        'found on the weighted_average path')
  last = {}
  for st in stmts:
    st = fold_ifexp(st) if isinstance(st, ast.If) else st
    if isinstance(st, ast.Assign) and len(st.targets) == 1 and isinstance(
        st.targets[0], ast.Name):
      last[st.targets[0].id] = st.value
  vals = {}
  for k in ctor.keywords:
    v = k.value
    hops = 0
    while isinstance(v, ast.Name) and v.id in last and hops < 5:
      v = last[v.id]
      hops += 1
    vals[k.arg] = v
  m = vals.get('monotonicities')
  good = (m is not None and isinstance(m, ast.BinOp) and isinstance(
      m.left, ast.List) and len(m.left.elts) == 1 and const_value(
          m.left.elts[0]) in (1, 'increasing')
          and const_value(vals.get('normalization_order'), 'x') == 1
          and const_value(vals.get('use_bias'), 'x') is False)
  res.check(good, 'W5', '%s|weighted-average-branch' % bl.qualname, bl.loc(),
            'weighted average: all increasing, L1 norm 1, no bias',
            'the weighted_average branch of build_linear_layer must set '
            'monotonicities=[1]*n, normalization_order=1, use_bias=False')


# ---------------------------------------------------------------------------
SPELLINGS = [('none', 0), ('none', 'none'), ('increasing', 1),
             ('increasing', 'increasing'), ('decreasing', -1),
             ('decreasing', 'decreasing'), ('pairs', spelling.PAIRS)]


def _w6(prog, res):
  """All "is this feature monotone for the downstream layer" predicates agree
  on every spelling of FeatureConfig.monotonicity."""
  var = 'feature_config.monotonicity'
  preds = {}
  # (a) _monotonicities_from_feature_configs: branch appends 1 / 0
  f1 = prog.function(PL + '._monotonicities_from_feature_configs')
  res.analysed(f1)
  chain = None
  for n in ast.walk(f1.node):
    if isinstance(n, ast.If) and spelling.reads_var(n.test, var):
      chain = n
      break
  if chain is None:
    raise AnalysisError('_monotonicities_from_feature_configs: predicate on '
                        '%s not found' % var)
  def outcome_append(branch_body):
    for c in ast.walk(ast.Module(body=branch_body, type_ignores=[])):
      if isinstance(c, ast.Call) and isinstance(c.func, ast.Attribute) and \
          c.func.attr == 'append' and c.args:
        return const_value(c.args[0], '?')
    return '?'
  preds['lattice/linear dims'] = (f1, chain, outcome_append)
  # (b) build_rtl_layer: branch appends to rtl_inputs['increasing']
  f2 = prog.function(PL + '.build_rtl_layer')
  res.analysed(f2)
  chain2 = None
  for n in ast.walk(f2.node):
    if isinstance(n, ast.If) and (spelling.reads_var(n.test, var) or any(
        isinstance(c, ast.Call) and getattr(prog.resolve_call(f2, c), 'name',
                                            '') ==
        '_monotonicities_from_feature_configs' for c in ast.walk(n.test))):
      chain2 = n
      break
  if chain2 is None:
    raise AnalysisError('build_rtl_layer: predicate on %s not found' % var)
  def outcome_rtl(branch_body):
    for n in ast.walk(ast.Module(body=branch_body, type_ignores=[])):
      if isinstance(n, ast.Subscript) and isinstance(n.slice, ast.Constant):
        return 1 if n.slice.value == 'increasing' else 0
    return '?'
  delegated = not spelling.reads_var(chain2.test, var)
  results = {}
  for cls, val in SPELLINGS:
    row = {}
    sig = spelling.chain_signature(chain, var, val, 'monotonicity')
    row['lattice/linear dims'] = _branch_outcome(chain, sig, outcome_append)
    if delegated:
      row['rtl inputs'] = row['lattice/linear dims']
    else:
      sig2 = spelling.chain_signature(chain2, var, val, 'monotonicity')
      row['rtl inputs'] = _branch_outcome(chain2, sig2, outcome_rtl)
    results[(cls, repr(val))] = row
  for (cls, val), row in sorted(results.items()):
    a = row['lattice/linear dims']
    b = row['rtl inputs']
    key = 'monotone-predicates|%s:%s' % (cls, val)
    res.check(a == b and a != '?', 'W6', key, f2.loc(chain2),
              'spelling %s: lattice dims and RTL routing agree (%s)' % (
                  val, 'monotone' if a else 'unconstrained'),
              'feature monotonicity spelled %s is %s for '
              '_monotonicities_from_feature_configs but %s for '
              'build_rtl_layer: such a feature is wired to unconstrained '
              'lattice dimensions in RTL ensembles' % (
                  val, 'monotone' if a == 1 else a,
                  'monotone' if b == 1 else 'unconstrained' if b == 0 else b))
  # the predicate is monotone exactly when the calibrator in front of the
  # lattice / linear dimension is order-constrained: the calibrated value then
  # moves in a known direction and the downstream dimension must be
  # increasing for the model to be monotone / ordered
  EXPECTED = {'none': 0, 'increasing': 1, 'decreasing': 1, 'pairs': 1}
  for (cls, val), row in sorted(results.items()):
    a = row['lattice/linear dims']
    res.check(a == EXPECTED[cls], 'W6',
              'monotone-predicates|expected:%s:%s' % (cls, val), f1.loc(chain),
              'spelling %s -> downstream dimension %s' % (
                  val, 'monotone' if a else 'unconstrained'),
              'a feature whose monotonicity is %s gets a %s downstream '
              'lattice / linear dimension; expected %s because its '
              'calibrator is %s' % (
                  val, 'monotone' if a == 1 else 'unconstrained' if a == 0
                  else a, 'monotone' if EXPECTED[cls] else 'unconstrained',
                  'order-constrained' if EXPECTED[cls] else 'unconstrained'))
  # synonyms agree inside each predicate
  for cls in ('none', 'increasing', 'decreasing'):
    rows = [r for (c, v), r in results.items() if c == cls]
    res.check(all(r == rows[0] for r in rows), 'W6',
              'monotone-predicates|synonyms:%s' % cls, f1.loc(chain),
              'both spellings of %r are classified alike' % cls,
              'the two spellings of %r are classified differently: %s' % (
                  cls, rows))


def _branch_outcome(head, sig, classify):
  last = sig[-1]
  cur = head
  bodies = []
  while True:
    bodies.append(cur.body)
    if len(cur.orelse) == 1 and isinstance(cur.orelse[0], ast.If):
      cur = cur.orelse[0]
    else:
      bodies.append(cur.orelse)
      break
  if any(s[0] == '?' for s in sig):
    return '?'
  if last[0] == 'T':
    return classify(bodies[last[1]])
  return classify(bodies[-1])


# ---------------------------------------------------------------------------
def _o1(prog, res):
  """Trust tuples are (main, conditional, direction) with main = the feature
  named by the trust config and conditional = the feature owning
  reflects_trust_in; dominance tuples are (dominant = owner of `dominates`,
  weak = the named feature)."""
  bl = prog.function(PL + '.build_lattice_layer')
  res.analysed(bl)
  ctx = FnCtx.of(bl)
  n = 0
  for c in ast.walk(bl.node):
    if isinstance(c, ast.Call) and isinstance(c.func, ast.Attribute) and \
        c.func.attr == 'append' and dotted(c.func.value) in (
            'edgeworth_trusts', 'trapezoid_trusts') and c.args and \
        isinstance(c.args[0], ast.Tuple) and len(c.args[0].elts) == 3:
      n += 1
      e0, e1, e2 = c.args[0].elts
      r0 = ctx.expand_reads(e0, owners=('trust_config',))
      r1 = ctx.expand_reads(e1, owners=('trust_config',))
      owner_idx = _enumerate_index_of(bl, 'reflects_trust_in')
      good = ('trust_config.feature_name' in r0
              and 'trust_config.feature_name' not in r1
              and dotted(e1) == owner_idx
              and dotted(e2) == 'trust_config.direction')
      res.check(good, 'O1', '%s|%s' % (bl.qualname, dotted(c.func.value)),
                bl.loc(c),
                '(main=index of trust_config.feature_name, conditional=owner '
                'of reflects_trust_in, direction)',
                'trust tuple %s is not (main, conditional, direction): the '
                'main feature is the one named by the trust config, the '
                'conditional feature the one that owns reflects_trust_in' %
                norm_text(c.args[0]))
  df = prog.function(PL + '._dominance_constraints_from_feature_configs')
  res.analysed(df)
  ctx = FnCtx.of(df)
  for c in ast.walk(df.node):
    if isinstance(c, ast.Call) and isinstance(c.func, ast.Attribute) and \
        c.func.attr == 'append' and c.args and isinstance(
            c.args[0], ast.Tuple) and len(c.args[0].elts) == 2:
      n += 1
      e0, e1 = c.args[0].elts
      r1 = ctx.expand_reads(e1, owners=('dominance_config',))
      owner_idx = _enumerate_index_of(df, 'dominates')
      good = (dotted(e0) == owner_idx
              and 'dominance_config.feature_name' in r1)
      res.check(good, 'O1', '%s|dominance' % df.qualname, df.loc(c),
                '(dominant=owner of `dominates`, weak=named feature)',
                'dominance tuple %s is not (dominant, weak)' %
                norm_text(c.args[0]))
  if n < 3:
    raise AnalysisError('O1: expected 3 tuple construction sites, found %d' % n)


def _enumerate_index_of(fn, attr):
  """name of the enumerate index of the loop whose element owns `.attr`."""
  for loop in ast.walk(fn.node):
    if isinstance(loop, ast.For) and isinstance(loop.iter, ast.Call) and \
        dotted(loop.iter.func) == 'enumerate' and isinstance(
            loop.target, ast.Tuple) and len(loop.target.elts) == 2:
      idx, elem = loop.target.elts
      for inner in ast.walk(loop):
        if isinstance(inner, ast.Attribute) and inner.attr == attr and \
            dotted(inner.value) == dotted(elem):
          return dotted(idx)
  return None


def _w6_pairs(prog, res):
  """W6 (categorical pairs): every container of ordering pairs that the
  verifier accepts and that the lattice / RTL predicates treat as "monotone"
  must also reach the CategoricalCalibration layer.  The selector
  `pairs if isinstance(pairs, <kinds>) else None` is evaluated on the list and
  on the tuple spelling of the same pairs."""
  fn = prog.function(PL + '.build_multi_unit_calibration_layers')
  res.analysed(fn)
  cc = prog.cls('categorical_calibration_layer.CategoricalCalibration')
  calls = wiring.calls_to(prog, fn, cc)
  if len(calls) != 1:
    raise AnalysisError('build_multi_unit_calibration_layers: expected one '
                        'CategoricalCalibration(...)')
  kw = {k.arg: k.value for k in calls[0].keywords}
  sel = kw.get('monotonicities')
  if sel is None:
    raise AnalysisError('CategoricalCalibration(...) without monotonicities=')

  def passes(value):
    """does the selector hand `value` to the layer?"""
    if dotted(sel) == 'feature_config.monotonicity':
      return True
    e = sel
    if isinstance(e, ast.Call) and dotted(e.func) in ('list', 'tuple') and \
        e.args:
      e = e.args[0]
      if dotted(e) == 'feature_config.monotonicity':
        return True
    if isinstance(e, ast.IfExp):
      t = e.test
      if isinstance(t, ast.Call) and dotted(t.func) == 'isinstance' and \
          dotted(t.args[0]) == 'feature_config.monotonicity':
        kinds = t.args[1].elts if isinstance(t.args[1], ast.Tuple) else [
            t.args[1]]
        names = {dotted(k) for k in kinds}
        hit = type(value).__name__ in names
        chosen = e.body if hit else e.orelse
        return not is_none(chosen)
    raise AnalysisError('%s: selector `%s` of the ordering pairs is not '
                        'understood' % (fn.loc(sel), norm_text(sel)[:60]))
  for label, value in (('list', [(0, 1), (1, 2)]),
                       ('tuple', ((0, 1), (1, 2)))):
    res.check(passes(value), 'W6', 'categorical-pairs|%s' % label,
              fn.loc(sel),
              'ordering pairs given as a %s reach the calibrator' % label,
              'ordering pairs given as a %s are accepted by verify_config and '
              'make the feature "monotone" for the lattice / RTL wiring, but '
              'the CategoricalCalibration layer gets monotonicities=None: the '
              'category order is never constrained (and appears after a '
              'config round trip, which turns the tuple into a list)' % label)
