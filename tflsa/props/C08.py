"""C08 - iterative (Dykstra) projection (L1 L2 L3 L4 P3 P4)."""
import ast

from ..model import (AnalysisError, dotted, norm_text, names_read,
                     const_value)
from ..rules import affine_rules
from ..rules import dykstra
from ..rules import stencil

TECHNIQUE = ('symbolic extraction of every group update into affine forms over '
             'symbolic cells and relu atoms, exact-projection / repair-to-'
             'boundary identities by rational arithmetic; group partition and '
             'roll-back bookkeeping lints')
EXPLANATION = (
    'Static analysis of the structural clauses of C08 (this is where the shape '
    'of the code carries most of the truth); convergence rates, the '
    'tf.while_loop and closeness of the strict constraint are NOT decided. '
    'Each group update of the six exactly-projected families (monotonicity '
    'incl. unimodality halves, Edgeworth, trapezoid, monotonic dominance, '
    'joint monotonicity) is extracted for a generic iteration and every '
    'discrete configuration and shown to be the Euclidean projection onto its '
    'half-space: delta_c = -a_c relu(a.w)/|a|^2, hence feasible kernels are '
    'fixed points (L1); range dominance (all 9 row/column position classes) '
    'and the joint-unimodality hyperplane step are gated repairs that land on '
    'the boundary and vanish on feasible kernels (L2); the enumerated groups '
    'are {0,1}^k exactly once with stride 2 = stencil width 2, so groups '
    'partition the instances into disjoint stencils (L3); roll-back, '
    'projection of the rolled-back value and recording of the change use one '
    'key per instance in both Dykstra loops (L4). The identities hold for all '
    'real kernels, sizes and loop positions; only the finite set of discrete '
    'configurations is enumerated, completely.'
    ' Also decided: the skip test of a constraint group names the dimension the partial projection iterates that group index over (L3s dimension binding); the unimodal split and the joint-unimodality centre are the same function of the size (O3); directions validated through .lower() are dispatched case-insensitively (V3c); constraints used as dictionary keys are tuples (T4).'
    ' Parallel statements for paired roles (dominant / weak, main / conditional) vary consistently (CP1).')
ASSUMPTIONS = ['tf.maximum/minimum are exact max/min; list cells of '
               '_unstack_nd are distinct tensors for distinct indices',
               'configurations excluded by verify_hyperparameters (monotone '
               'and unimodal on one dimension) do not occur']

LL = 'lattice_lib'


def run(prog, res):
  from ..rules import hashkeys
  for q in ('lattice_lib.project_by_dykstra',):
    hashkeys.check_function(prog, res, prog.function(q))
  res.floor('T4', 8)
  from ..rules import siblings
  siblings.selfcheck()
  for g in prog.all_functions():
    if g.parent is None and g.module.name == 'lattice_lib':
      siblings.check_function(prog, res, g)
  res.floor('CP1', 10)
  affine_rules.check_partials(prog, res)
  affine_rules.check_hyperplane(prog, res)
  affine_rules.check_pwl_bounds(prog, res)
  affine_rules.check_partition(prog, res)
  affine_rules.check_A4(prog, res)
  for q, name in ((LL + '.project_by_dykstra', 'lattice'),
                  ('pwl_calibration_lib.project_all_constraints', 'pwl')):
    fn = prog.function(q)
    body = [n for n in ast.walk(fn.node) if isinstance(n, ast.FunctionDef)
            and n.name == 'body']
    if not body:
      raise AnalysisError('%s: body() not found' % q)
    res.analysed(fn)
    dykstra.check_bookkeeping(prog, res, fn, body[0])
  _reversal_pairing(prog, res)
  _skip_tests(prog, res)
  _group_dims(prog, res)
  _centres(prog, res)
  from ..rules import spelling as _sp
  _sp.check_case_agreement(prog, res, ['lattice_lib'])
  res.floor('V3c', 2)
  res.floor('O3', 1)
  res.floor('L4', 30)
  res.floor('P4', 4)
  res.floor('L3s', 12)
  res.exhaustive = True


def _reversal_pairing(prog, res):
  """P4: `if cond_direction < 0: layers = reverse(layers)` occurs before and
  after the update loop under the same test; unstack and stack use the same
  dims."""
  for name in ('_project_partial_edgeworth', '_project_partial_trapezoid'):
    fn = prog.function('%s.%s' % (LL, name))
    revs = []
    loops = [s for s in fn.node.body if isinstance(s, ast.For)]
    for i, st in enumerate(fn.node.body):
      if isinstance(st, ast.If) and any(
          isinstance(c, ast.Call) and getattr(prog.resolve_call(fn, c),
                                              'name', '') ==
          '_reverse_second_list_dimension' for c in ast.walk(st)):
        revs.append((i, norm_text(st.test)))
    li = fn.node.body.index(loops[0]) if loops else -1
    good = (len(revs) == 2 and revs[0][0] < li < revs[1][0]
            and revs[0][1] == revs[1][1])
    res.check(good, 'P4', '%s|reverse-unreverse' % name, fn.loc(),
              'layers are reversed before and un-reversed after the loop '
              'under the same test (%s)' % (revs[0][1] if revs else '?'),
              'the conditional-direction reversal of %s is not applied '
              'symmetrically around the update loop: %s' % (name, revs))
  for name in ('_project_partial_edgeworth', '_project_partial_trapezoid',
               '_project_partial_monotonic_dominance',
               '_project_partial_range_dominance',
               '_project_partial_joint_monotonicity'):
    fn = prog.function('%s.%s' % (LL, name))
    un = st_ = None
    for c in ast.walk(fn.node):
      if isinstance(c, ast.Call):
        nm = getattr(prog.resolve_call(fn, c), 'name', '')
        if nm == '_unstack_nd':
          un = norm_text(c.args[1]) if len(c.args) > 1 else norm_text(
              c.keywords[0].value)
        if nm == '_stack_nd':
          st_ = norm_text(c.args[1]) if len(c.args) > 1 else norm_text(
              c.keywords[0].value)
    res.check(un is not None and un == st_, 'P4', '%s|unstack-stack' % name,
              fn.loc(), '_unstack_nd and _stack_nd use the same dims %s' % un,
              '%s unstacks along %s but stacks along %s' % (name, un, st_))


def _skip_tests(prog, res):
  """L3s: the `continue` tests in project_by_dykstra.body skip exactly the
  empty groups: group + 1 >= size  <=>  range(group, size - 1, 2) is empty."""
  dyk = prog.function(LL + '.project_by_dykstra')
  body = [n for n in ast.walk(dyk.node) if isinstance(n, ast.FunctionDef)
          and n.name == 'body'][0]
  n = 0
  for loop in ast.walk(body):
    if not (isinstance(loop, ast.For) and dotted(loop.target) ==
            'constraint_group'):
      continue
    for st in loop.body:
      if isinstance(st, ast.If) and any(isinstance(x, ast.Continue)
                                        for x in st.body):
        tests = st.test.values if isinstance(st.test, ast.BoolOp) else [
            st.test]
        ok = isinstance(st.test, ast.Compare) or isinstance(
            getattr(st.test, 'op', None), ast.Or)
        for t in tests:
          txt = norm_text(t).replace(' ', '')
          # constraint_group + 1 >= lattice_sizes[d]   or
          # constraint_group[k] >= lattice_sizes[d] - 1
          good = (txt.startswith('constraint_group') and '>=' in txt and (
              ('+1>=lattice_sizes[' in txt and not txt.endswith('-1')) or
              txt.endswith(']-1')))
          ok = ok and good
        n += 1
        callee = [getattr(prog.resolve_call(dyk, c), 'name', '')
                  for c in ast.walk(loop) if isinstance(c, ast.Call)]
        callee = [c for c in callee if c.startswith('_project_partial')]
        res.check(ok, 'L3s', '%s|skip-empty' % (callee[0] if callee else n),
                  dyk.loc(st),
                  'a group is skipped exactly when its first index is past '
                  'the last pair (group + 1 >= size)',
                  'the skip test `%s` does not express "group + 1 >= size": '
                  'non-empty groups would be skipped or empty ones '
                  'projected' % norm_text(st.test)[:70])
  return n


# ---------------------------------------------------------------------------
def _tuple_positions(fn_node, source_names):
  """{local name: position} for `a, b, c = <source>` unpackings."""
  out = {}
  for st in ast.walk(fn_node):
    if isinstance(st, ast.Assign) and isinstance(st.targets[0], ast.Tuple) \
        and dotted(st.value) in source_names:
      for i, t in enumerate(st.targets[0].elts):
        if isinstance(t, ast.Name):
          out[t.id] = (dotted(st.value), i)
  return out


def _group_dims(prog, res):
  """L3s (dimension binding): the skip test of a constraint group compares
  group index k with the size of some dimension; the partial projection
  iterates `range(group[k], lattice_sizes[d] - 1, 2)`.  Both must name the
  SAME dimension of the constraint (same position of the constraint tuple,
  or the same forwarded argument) - with the sizes swapped a non-empty parity
  class of a lattice with unequal sizes is never projected."""
  dyk = prog.function(LL + '.project_by_dykstra')
  body = [n for n in ast.walk(dyk.node) if isinstance(n, ast.FunctionDef)
          and n.name == 'body'][0]
  n = 0
  for outer in ast.walk(body):
    if not isinstance(outer, ast.For):
      continue
    for loop in outer.body:
      if not (isinstance(loop, ast.For) and dotted(loop.target) ==
              'constraint_group'):
        continue
      calls = [c for c in ast.walk(loop) if isinstance(c, ast.Call) and
               getattr(prog.resolve_call(dyk, c), 'name', '').startswith(
                   '_project_partial')]
      if not calls:
        continue
      callee = prog.resolve_call(dyk, calls[0])
      res.analysed(callee)
      from ..model import call_args
      bound, _, _ = call_args(calls[0], callee.all_params)
      # caller: group index k -> (kind, id) of the dimension it is compared to
      cpos = _tuple_positions(outer, {dotted(outer.target)})
      caller = {}
      for st in loop.body:
        if isinstance(st, ast.If) and any(isinstance(x, ast.Continue)
                                          for x in st.body):
          tests = st.test.values if isinstance(st.test, ast.BoolOp) else [
              st.test]
          for t in tests:
            if not isinstance(t, ast.Compare):
              continue
            k = None
            for x in ast.walk(t.left):
              if isinstance(x, ast.Subscript) and dotted(
                  x.value) == 'constraint_group':
                k = const_value(x.slice, None)
            if k is None and 'constraint_group' in names_read(t.left):
              k = 'scalar'
            d = None
            for x in ast.walk(t.comparators[0]):
              if isinstance(x, ast.Subscript) and dotted(
                  x.value) == 'lattice_sizes':
                d = dotted(x.slice)
            if k is not None and d is not None:
              caller[k] = cpos.get(d, ('var', d))
      # callee: group index k -> dimension of its loop range
      src = {p for p, v in bound.items() if dotted(v) == dotted(outer.target)}
      kpos = _tuple_positions(callee.node, src)
      inner = {}
      for lp in ast.walk(callee.node):
        if isinstance(lp, ast.For) and isinstance(lp.iter, ast.Call) and \
            dotted(lp.iter.func) == 'range' and len(lp.iter.args) >= 2:
          a0, a1 = lp.iter.args[0], lp.iter.args[1]
          k = None
          if isinstance(a0, ast.Subscript) and dotted(
              a0.value) == 'constraint_group':
            k = const_value(a0.slice, None)
          elif dotted(a0) == 'constraint_group':
            k = 'scalar'
          d = None
          for x in ast.walk(a1):
            if isinstance(x, ast.Subscript) and dotted(
                x.value) == 'lattice_sizes':
              d = dotted(x.slice)
          if k is not None and d is not None:
            if d in kpos:
              inner[k] = ('tuple', kpos[d][1])
            elif d in bound:
              inner[k] = ('var', dotted(bound[d]))
            else:
              inner[k] = ('?', d)
      if not inner or not caller:
        continue
      for k in sorted(inner, key=str):
        if k not in caller:
          continue
        got = caller[k]
        got_n = ('tuple', got[1]) if got[0] == dotted(outer.target) else got
        n += 1
        res.check(got_n == inner[k], 'L3s',
                  '%s|group-dim[%s]' % (callee.name, k), dyk.loc(loop),
                  'group index %s is compared with the size of the dimension '
                  'the projection iterates over' % k,
                  'the skip test compares group index %s with the size of %s '
                  'but %s iterates that index over %s: for unequal sizes a '
                  'non-empty group is skipped and never projected' % (
                      k, got_n, callee.name, inner[k]))
  return n


def _eval_size_expr(e, env):
  if isinstance(e, ast.Constant):
    return e.value
  if isinstance(e, ast.BinOp):
    a, b = _eval_size_expr(e.left, env), _eval_size_expr(e.right, env)
    op = e.op
    if isinstance(op, ast.Add):
      return a + b
    if isinstance(op, ast.Sub):
      return a - b
    if isinstance(op, ast.Mult):
      return a * b
    if isinstance(op, ast.FloorDiv):
      return a // b
    if isinstance(op, ast.Div):
      return a / b
  t = norm_text(e).replace(' ', '')
  if t in env:
    return env[t]
  raise AnalysisError('centre expression `%s` not understood' % t)


def _centres(prog, res):
  """O3: the vertex at which a unimodal dimension turns is computed in two
  places - the split `i < centre` of _project_partial_monotonicity and
  `center` of the joint-unimodality hyperplanes.  They must be the same
  function of the lattice size (evaluated for sizes 2..13: both are
  floor-division forms of period 2)."""
  a = prog.function(LL + '._project_partial_monotonicity')
  b = prog.function(LL + '._project_partial_joint_unimodality')
  res.analysed(a, b)
  ea = eb = None
  for st in ast.walk(a.node):
    if isinstance(st, ast.Assign) and dotted(st.targets[0]) == \
        'is_first_part' and isinstance(st.value, ast.Compare) and isinstance(
            st.value.ops[0], ast.Lt) and dotted(st.value.left) == 'i':
      ea = st.value.comparators[0]
  for st in ast.walk(b.node):
    if isinstance(st, ast.Assign) and dotted(st.targets[0]) == 'center' and \
        isinstance(st.value, ast.ListComp):
      eb = st.value.elt
      var = dotted(st.value.generators[0].target)
  if ea is None or eb is None:
    raise AnalysisError('unimodality centre expressions not found')
  diff = None
  for s in range(2, 14):
    va = _eval_size_expr(ea, {'lattice_sizes[dimension]': s})
    vb = _eval_size_expr(eb, {var: s})
    # `i < c` makes pairs (i, i+1) with i < c decreasing: the turning vertex
    # is c itself
    if va != vb and diff is None:
      diff = (s, va, vb)
  res.check(diff is None, 'O3', 'unimodality|centre-agreement', a.loc(ea),
            'both sites turn at `%s`' % norm_text(eb),
            'for lattice size %s the unimodal projection turns at vertex %s '
            'but the joint-unimodality projection at vertex %s: the two '
            'disagree on even sizes and feasible kernels are moved' % (
                diff if diff else (0, 0, 0)))
