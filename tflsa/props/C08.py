"""C08 - iterative (Dykstra) projection (L1 L2 L3 L4 P3 P4)."""
import ast

from ..model import AnalysisError, dotted, norm_text, names_read
from ..rules import affine_rules
from ..rules import dykstra
from ..rules import stencil

TECHNIQUE = ('symbolic extraction of every group update into affine forms over '
             'symbolic cells and relu atoms, exact-projection / repair-to-'
             'boundary identities by rational arithmetic; group partition and '
             'roll-back bookkeeping lints')
EXPLANATION = (
    'Static analysis of the structural clauses of C08 (this is where the shape '
    'of the code carries most of the truth); convergence rates, the '
    'tf.while_loop and closeness of the strict constraint are NOT decided. '
    'Each group update of the six exactly-projected families (monotonicity '
    'incl. unimodality halves, Edgeworth, trapezoid, monotonic dominance, '
    'joint monotonicity) is extracted for a generic iteration and every '
    'discrete configuration and shown to be the Euclidean projection onto its '
    'half-space: delta_c = -a_c relu(a.w)/|a|^2, hence feasible kernels are '
    'fixed points (L1); range dominance (all 9 row/column position classes) '
    'and the joint-unimodality hyperplane step are gated repairs that land on '
    'the boundary and vanish on feasible kernels (L2); the enumerated groups '
    'are {0,1}^k exactly once with stride 2 = stencil width 2, so groups '
    'partition the instances into disjoint stencils (L3); roll-back, '
    'projection of the rolled-back value and recording of the change use one '
    'key per instance in both Dykstra loops (L4). The identities hold for all '
    'real kernels, sizes and loop positions; only the finite set of discrete '
    'configurations is enumerated, completely.')
ASSUMPTIONS = ['tf.maximum/minimum are exact max/min; list cells of '
               '_unstack_nd are distinct tensors for distinct indices',
               'configurations excluded by verify_hyperparameters (monotone '
               'and unimodal on one dimension) do not occur']

LL = 'lattice_lib'


def run(prog, res):
  affine_rules.check_partials(prog, res)
  affine_rules.check_hyperplane(prog, res)
  affine_rules.check_pwl_bounds(prog, res)
  affine_rules.check_partition(prog, res)
  affine_rules.check_A4(prog, res)
  for q, name in ((LL + '.project_by_dykstra', 'lattice'),
                  ('pwl_calibration_lib.project_all_constraints', 'pwl')):
    fn = prog.function(q)
    body = [n for n in ast.walk(fn.node) if isinstance(n, ast.FunctionDef)
            and n.name == 'body']
    if not body:
      raise AnalysisError('%s: body() not found' % q)
    res.analysed(fn)
    dykstra.check_bookkeeping(prog, res, fn, body[0])
  _reversal_pairing(prog, res)
  _skip_tests(prog, res)
  res.floor('L4', 30)
  res.floor('P4', 4)
  res.floor('L3s', 5)
  res.exhaustive = True


def _reversal_pairing(prog, res):
  """P4: `if cond_direction < 0: layers = reverse(layers)` occurs before and
  after the update loop under the same test; unstack and stack use the same
  dims."""
  for name in ('_project_partial_edgeworth', '_project_partial_trapezoid'):
    fn = prog.function('%s.%s' % (LL, name))
    revs = []
    loops = [s for s in fn.node.body if isinstance(s, ast.For)]
    for i, st in enumerate(fn.node.body):
      if isinstance(st, ast.If) and any(
          isinstance(c, ast.Call) and getattr(prog.resolve_call(fn, c),
                                              'name', '') ==
          '_reverse_second_list_dimension' for c in ast.walk(st)):
        revs.append((i, norm_text(st.test)))
    li = fn.node.body.index(loops[0]) if loops else -1
    good = (len(revs) == 2 and revs[0][0] < li < revs[1][0]
            and revs[0][1] == revs[1][1])
    res.check(good, 'P4', '%s|reverse-unreverse' % name, fn.loc(),
              'layers are reversed before and un-reversed after the loop '
              'under the same test (%s)' % (revs[0][1] if revs else '?'),
              'the conditional-direction reversal of %s is not applied '
              'symmetrically around the update loop: %s' % (name, revs))
  for name in ('_project_partial_edgeworth', '_project_partial_trapezoid',
               '_project_partial_monotonic_dominance',
               '_project_partial_range_dominance',
               '_project_partial_joint_monotonicity'):
    fn = prog.function('%s.%s' % (LL, name))
    un = st_ = None
    for c in ast.walk(fn.node):
      if isinstance(c, ast.Call):
        nm = getattr(prog.resolve_call(fn, c), 'name', '')
        if nm == '_unstack_nd':
          un = norm_text(c.args[1]) if len(c.args) > 1 else norm_text(
              c.keywords[0].value)
        if nm == '_stack_nd':
          st_ = norm_text(c.args[1]) if len(c.args) > 1 else norm_text(
              c.keywords[0].value)
    res.check(un is not None and un == st_, 'P4', '%s|unstack-stack' % name,
              fn.loc(), '_unstack_nd and _stack_nd use the same dims %s' % un,
              '%s unstacks along %s but stacks along %s' % (name, un, st_))


def _skip_tests(prog, res):
  """L3s: the `continue` tests in project_by_dykstra.body skip exactly the
  empty groups: group + 1 >= size  <=>  range(group, size - 1, 2) is empty."""
  dyk = prog.function(LL + '.project_by_dykstra')
  body = [n for n in ast.walk(dyk.node) if isinstance(n, ast.FunctionDef)
          and n.name == 'body'][0]
  n = 0
  for loop in ast.walk(body):
    if not (isinstance(loop, ast.For) and dotted(loop.target) ==
            'constraint_group'):
      continue
    for st in loop.body:
      if isinstance(st, ast.If) and any(isinstance(x, ast.Continue)
                                        for x in st.body):
        tests = st.test.values if isinstance(st.test, ast.BoolOp) else [
            st.test]
        ok = isinstance(st.test, ast.Compare) or isinstance(
            getattr(st.test, 'op', None), ast.Or)
        for t in tests:
          txt = norm_text(t).replace(' ', '')
          # constraint_group + 1 >= lattice_sizes[d]   or
          # constraint_group[k] >= lattice_sizes[d] - 1
          good = (txt.startswith('constraint_group') and '>=' in txt and (
              ('+1>=lattice_sizes[' in txt and not txt.endswith('-1')) or
              txt.endswith(']-1')))
          ok = ok and good
        n += 1
        callee = [getattr(prog.resolve_call(dyk, c), 'name', '')
                  for c in ast.walk(loop) if isinstance(c, ast.Call)]
        callee = [c for c in callee if c.startswith('_project_partial')]
        res.check(ok, 'L3s', '%s|skip-empty' % (callee[0] if callee else n),
                  dyk.loc(st),
                  'a group is skipped exactly when its first index is past '
                  'the last pair (group + 1 >= size)',
                  'the skip test `%s` does not express "group + 1 >= size": '
                  'non-empty groups would be skipped or empty ones '
                  'projected' % norm_text(st.test)[:70])
  return n
