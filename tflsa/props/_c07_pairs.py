"""P2/P3/P4 instances of C07: bound None-pattern <-> polarity tables."""
import ast

from ..model import AnalysisError, expand_aug, dotted, norm_text, const_value, names_read
from ..rules import guards

B = 'kronecker_factored_lattice_lib'

PATTERNS = [('none', 'none'), ('nonzero', 'none'), ('none', 'nonzero'),
            ('nonzero', 'nonzero'), ('zero', 'none'), ('none', 'zero'),
            ('zero', 'zero'), ('zero', 'nonzero'), ('nonzero', 'zero')]


def _pat(p):
  return ('min' if p[0] != 'none' else '') + ('max' if p[1] != 'none' else '') \
      or 'neither'


def _env(p):
  return {'output_min': guards.Val('bound', p[0]),
          'output_max': guards.Val('bound', p[1])}


def _is_halfrange(prog, fn, expr, stmts):
  """expr is (output_max - output_min) / 2 (possibly via a local)."""
  if isinstance(expr, ast.Name):
    for st in stmts:
      st = expand_aug(st)
      if isinstance(st, ast.Assign) and dotted(st.targets[0]) == expr.id:
        return _is_halfrange(prog, fn, st.value, stmts)
    return False
  if isinstance(expr, ast.BinOp) and isinstance(expr.op, ast.Div) and \
      const_value(expr.right) in (2, 2.0):
    d = expr.left
    return (isinstance(d, ast.BinOp) and isinstance(d.op, ast.Sub)
            and dotted(d.left) == 'output_max'
            and dotted(d.right) == 'output_min')
  return False


def _scale_op(prog, fn, stmts):
  """classify what the executed statements do to `scale`."""
  kind = 'identity'
  stmts = [expand_aug(s) for s in stmts]
  for st in stmts:
    if isinstance(st, ast.Assign) and dotted(st.targets[0]) == 'scale' and \
        isinstance(st.value, ast.Call):
      ext = prog.ext_name(fn.module, st.value.func)
      args = st.value.args
      kw = {k.arg: k.value for k in st.value.keywords}
      if ext in ('tf.maximum', 'tf.math.maximum') and const_value(
          args[1]) == 0 and dotted(args[0]) == 'scale':
        kind = 'max0'
      elif ext == 'tf.nn.relu' and dotted(args[0]) == 'scale':
        kind = 'max0'
      elif ext in ('tf.minimum', 'tf.math.minimum') and const_value(
          args[1]) == 0 and dotted(args[0]) == 'scale':
        kind = 'min0'
      elif ext == 'tf.clip_by_value':
        lo = kw.get('clip_value_min', args[1] if len(args) > 1 else None)
        hi = kw.get('clip_value_max', args[2] if len(args) > 2 else None)
        lo_ok = (isinstance(lo, ast.UnaryOp) and isinstance(lo.op, ast.USub)
                 and _is_halfrange(prog, fn, lo.operand, stmts))
        hi_ok = _is_halfrange(prog, fn, hi, stmts)
        kind = 'clip+-half' if lo_ok and hi_ok else 'clip?(%s,%s)' % (
            norm_text(lo), norm_text(hi))
      else:
        kind = 'other:%s' % norm_text(st.value)[:40]
  return kind


def run(prog, res):
  # ---- P3: finalize_scale_constraints
  fs = prog.function(B + '.finalize_scale_constraints')
  want = {'neither': 'identity', 'min': 'max0', 'max': 'min0',
          'minmax': 'clip+-half'}
  why = {'min': 'output = output_min + scale*(non-negative), so scale >= 0',
         'max': 'output = output_max + scale*(non-negative), so scale <= 0',
         'minmax': 'bias is the midpoint and |interp| <= 1, so |scale| <= '
                   '(max-min)/2',
         'neither': 'no bound, nothing to clip'}
  for p in PATTERNS:
    got = _scale_op(prog, fs, guards.trace(prog, fs, _env(p)))
    res.check(got == want[_pat(p)], 'P3',
              '%s|%s:%s/%s' % (fs.qualname, _pat(p), p[0], p[1]), fs.loc(),
              'bounds=%s -> %s (%s)' % (_pat(p), got, why[_pat(p)]),
              'bounds=%s (output_min %s, output_max %s) -> scale op %s, '
              'expected %s because %s' % (_pat(p), p[0], p[1], got,
                                          want[_pat(p)], why[_pat(p)]))
  # ---- P3: bias_initializer
  bi = prog.function(B + '.bias_initializer')
  for p in PATTERNS:
    stmts = guards.trace(prog, bi, _env(p))
    ret = stmts[-1] if stmts and isinstance(stmts[-1], ast.Return) else None
    got = _bias_value(prog, bi, ret, guards.Logic(prog, bi, _env(p), {}))
    exp = {'neither': 'zeros', 'min': 'output_min', 'max': 'output_max',
           'minmax': 'midpoint'}[_pat(p)]
    res.check(got == exp, 'P3',
              '%s|%s:%s/%s' % (bi.qualname, _pat(p), p[0], p[1]), bi.loc(),
              'bounds=%s -> bias %s' % (_pat(p), got),
              'bounds=%s (output_min %s, output_max %s) -> bias %s, expected '
              '%s (the fixed bias anchors the bounded output range)' % (
                  _pat(p), p[0], p[1], got, exp))
  # ---- P3: scale_initializer sign
  si = prog.function(B + '.scale_initializer')
  for p in PATTERNS:
    stmts = guards.trace(prog, si, _env(p))
    got = _scale_init(prog, si, stmts)
    exp = {'neither': 'alternating', 'min': '+ones', 'max': '-ones',
           'minmax': 'alternating*half'}[_pat(p)]
    res.check(got == exp, 'P3',
              '%s|%s:%s/%s' % (si.qualname, _pat(p), p[0], p[1]), si.loc(),
              'bounds=%s -> initial scale %s' % (_pat(p), got),
              'bounds=%s (output_min %s, output_max %s) -> initial scale %s, '
              'expected %s (must satisfy the scale constraint of that '
              'pattern)' % (_pat(p), p[0], p[1], got, exp))
  # ---- P2: one-sided weight bound projection keeps weights non-negative
  pb = prog.function(B + '._approximately_project_bounds')
  for p in PATTERNS:
    stmts = guards.trace(prog, pb, _env(p))
    got = _weights_op(prog, pb, stmts)
    exp = {'neither': 'identity', 'min': 'max0', 'max': 'max0',
           'minmax': 'divide-by-root'}[_pat(p)]
    res.check(got == exp, 'P2',
              '%s|%s:%s/%s' % (pb.qualname, _pat(p), p[0], p[1]), pb.loc(),
              'bounds=%s -> weights %s' % (_pat(p), got),
              'bounds=%s -> weights op %s, expected %s' % (_pat(p), got, exp))
  # ---- P4: direction multiply applied and undone
  _direction(prog, res)
  # ---- P2: monotone branch clips weights to >= 0 before the cumulative pass
  fw = prog.function(B + '.finalize_weight_constraints')
  good = False
  for st in fw.node.body:
    if isinstance(st, ast.If) and 'monotonicities' in names_read(st.test):
      clip = proj = None
      for i, s in enumerate(st.body):
        if isinstance(s, ast.Assign) and isinstance(s.value, ast.Call):
          ext = prog.ext_name(fw.module, s.value.func)
          if ext in ('tf.maximum', 'tf.nn.relu') and dotted(
              s.value.args[0]) == 'weights' and (
                  ext == 'tf.nn.relu' or const_value(s.value.args[1]) == 0):
            clip = i
          r = prog.resolve_call(fw, s.value)
          if getattr(r, 'name', '') == '_approximately_project_monotonicity':
            proj = i
      good = clip is not None and proj is not None and clip < proj
  res.check(good, 'P2', '%s|nonneg-before-monotone' % fw.qualname, fw.loc(),
            'weights clipped to >= 0 before the sign-aware cumulative pass',
            'monotone branch must clip weights to >= 0 (tf.maximum(weights, '
            '0)) before _approximately_project_monotonicity: a product of '
            'per-dimension factors is monotone only for non-negative factors')
  res.floor('P3', 27)
  res.floor('P2', 10)
  res.floor('P4', 6)


def _bias_value(prog, fn, ret, logic=None):
  if ret is None or not isinstance(ret.value, ast.Call):
    return 'none'
  c = ret.value
  ext = prog.ext_name(fn.module, c.func)
  if ext == 'tf.zeros':
    return 'zeros'
  if ext == 'tf.constant' and (c.args or c.keywords):
    a = c.args[0] if c.args else {k.arg: k.value for k in c.keywords}.get(
        'value')
    # a value selected by a conditional expression: decided by the state
    while isinstance(a, ast.IfExp) and logic is not None:
      t = logic.truth(a.test)
      if t is None:
        break
      a = a.body if t else a.orelse
    d = dotted(a)
    if d in ('output_min', 'output_max'):
      return d
    if (isinstance(a, ast.BinOp) and isinstance(a.op, ast.Div)
        and const_value(a.right) in (2, 2.0) and isinstance(a.left, ast.BinOp)
        and isinstance(a.left.op, ast.Add)
        and {dotted(a.left.left), dotted(a.left.right)} == {'output_min',
                                                            'output_max'}):
      return 'midpoint'
    return 'constant:%s' % norm_text(a)[:30]
  return 'other'


def _scale_init(prog, fn, stmts):
  """the value returned along the executed statements, by kind (the locals it
  passes through do not matter)"""
  ret = stmts[-1] if stmts and isinstance(stmts[-1], ast.Return) else None
  if ret is None:
    return 'none'
  val = {}

  def kind(v):
    if isinstance(v, ast.Name):
      return val.get(v.id, 'other')
    if isinstance(v, ast.Call):
      ext = prog.ext_name(fn.module, v.func)
      if ext == 'np.ones':
        return '+ones'
      if ext == 'np.tile' and v.args and dotted(v.args[0]) == 'signs':
        return 'alternating'
      return 'other'
    if isinstance(v, ast.UnaryOp) and isinstance(v.op, ast.USub):
      return {'+ones': '-ones', '-ones': '+ones'}.get(kind(v.operand),
                                                      'other')
    if isinstance(v, ast.BinOp) and isinstance(v.op, ast.Mult):
      for x, y in ((v.left, v.right), (v.right, v.left)):
        if kind(x) == 'alternating':
          return 'alternating*half' if _halfrange_expr(y) or (
              isinstance(y, ast.Name) and val.get(y.id) == 'half') else \
              'alternating*?'
      return 'other'
    if _halfrange_expr(v):
      return 'half'
    return 'other'
  for st in stmts[:-1]:
    st = expand_aug(st)
    if isinstance(st, ast.Assign) and len(st.targets) == 1 and isinstance(
        st.targets[0], ast.Name):
      val[st.targets[0].id] = kind(st.value)
  return kind(ret.value)


def _halfrange_expr(e):
  return (isinstance(e, ast.BinOp) and isinstance(e.op, ast.Div)
          and const_value(e.right) in (2, 2.0) and isinstance(e.left, ast.BinOp)
          and isinstance(e.left.op, ast.Sub)
          and dotted(e.left.left) == 'output_max'
          and dotted(e.left.right) == 'output_min')


def _weights_op(prog, fn, stmts):
  kind = 'identity'
  stmts = [expand_aug(s) for s in stmts]
  for st in stmts:
    if isinstance(st, ast.Assign) and dotted(st.targets[0]) == 'weights':
      v = st.value
      if isinstance(v, ast.Call):
        ext = prog.ext_name(fn.module, v.func)
        if ext in ('tf.maximum', 'tf.math.maximum') and const_value(
            v.args[1]) == 0:
          kind = 'max0'
        elif ext == 'tf.nn.relu':
          kind = 'max0'
        elif ext == 'tf.minimum':
          kind = 'min0'
      elif isinstance(v, ast.BinOp) and isinstance(v.op, ast.Div) and dotted(
          v.left) == 'weights':
        kind = 'divide-by-root'
  return kind


def _direction(prog, res):
  """P4: direction = expand_dims(sign(scale), axis=1) multiplies the kernel
  when it is unstacked and again when it is re-stacked (projection,
  initializer); the assertion multiplies once (it only reads)."""
  sites = [(B + '._approximately_project_monotonicity', 2),
           (B + '.kfl_random_monotonic_initializer', 2),
           (B + '._assert_monotonicity_constraints', 1)]
  for q, want in sites:
    fn = prog.function(q)
    res.analysed(fn)
    ddef = None
    for st in ast.walk(fn.node):
      if isinstance(st, ast.Assign) and dotted(st.targets[0]) == 'direction':
        ddef = st
    good_def = False
    if ddef is not None and isinstance(ddef.value, ast.Call):
      c = ddef.value
      kw = {k.arg: k.value for k in c.keywords}
      ax = kw.get('axis', c.args[1] if len(c.args) > 1 else None)
      inner = c.args[0] if c.args else kw.get('input')
      good_def = (prog.ext_name(fn.module, c.func) == 'tf.expand_dims'
                  and const_value(ax) == 1 and isinstance(inner, ast.Call)
                  and prog.ext_name(fn.module, inner.func) == 'tf.sign'
                  and dotted(inner.args[0]) == 'scale')
    res.check(good_def, 'P4', '%s|direction-def' % q,
              fn.loc(ddef) if ddef else fn.loc(),
              'direction = expand_dims(sign(scale), axis=1) broadcasts over '
              '(lattice, units, [dims,] terms)',
              'direction must be tf.expand_dims(tf.sign(scale), axis=1) so '
              'that the (units, terms) signs align with the kernel layout')
    mults = 0
    for n in ast.walk(fn.node):
      if isinstance(n, ast.BinOp) and isinstance(n.op, ast.Mult) and (
          dotted(n.left) == 'direction' or dotted(n.right) == 'direction'):
        mults += 1
    res.check(mults == want, 'P4', '%s|direction-uses' % q, fn.loc(),
              'kernel multiplied by direction %d time(s)' % mults,
              'kernel is multiplied by direction %d time(s), expected %d: '
              'the sign flip must be applied before and undone after the '
              'monotone pass' % (mults, want))


def run_bound_factor(prog, res):
  """B1: the quantity the two-sided bound projection divides by (and the
  assertion compares with 1) is prod over dims of max over keypoints of
  |weight| - an upper bound of every |interpolated output|.  abs must be
  applied before the max: max|w| dominates every entry, |max w| does not."""
  from ..rules.asserts import AssertEvaluator
  for q in (B + '._approximately_project_bounds',
            B + '._assert_bound_constraints'):
    fn = prog.function(q)
    res.analysed(fn)
    ev = AssertEvaluator(prog, fn)
    sites = [c for c in ast.walk(fn.node) if isinstance(c, ast.Call)
             and prog.ext_name(fn.module, c.func) == 'tf.reduce_prod']
    if not sites:
      raise AnalysisError('%s: reduce_prod over dims not found' % q)
    for i, c in enumerate(sites):
      at = ev.cfg.node_containing(c)
      v = ev.eval(c.args[0], at)
      kw = {k.arg: k.value for k in c.keywords}
      ax = const_value(kw.get('axis', c.args[1] if len(c.args) > 1 else None))
      good = v.kind == 'agg' and v.pol == 'max' and v.nonneg
      res.check(good, 'B1', '%s|max-abs#%d' % (q, i), fn.loc(c),
                'factor = prod_dims max_keypoints |w| (abs inside the max)',
                'the bound factor in %s is a product of %s, not of '
                'max_keypoints |w|: a large negative entry is not dominated, '
                'so outputs can leave [output_min, output_max]' % (
                    fn.name, v))
      res.check(ax == 3, 'B1', '%s|prod-axis#%d' % (q, i), fn.loc(c),
                'product over the dims axis (3) of (lead, lattice, units, '
                'dims, terms)',
                'the product must run over the dims axis (3); found %s' % ax)
  res.floor('B1', 4)
