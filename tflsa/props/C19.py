"""C19 - gradients delivered to training equal the true derivatives
(G1 who-may-define + axis pairing, G3 zero-pattern case analysis of the
hand-written gradient, G2 linearity in the kernel)."""
import ast
from fractions import Fraction

from ..model import (AnalysisError, FunctionInfo, dotted, norm_text,
                     names_read, const_value, call_args)
from ..rules import axes

TECHNIQUE = ('who-may-define rule for custom gradients, abstract '
             'interpretation of the hand-written gradient over the zero-pattern '
             'domain (exhaustive case analysis), kernel-taint dataflow with a '
             'table of linear ops')
EXPLANATION = (
    'Static analysis of the structural clauses of C19: (G1) tf.custom_gradient '
    '/ stop_gradient / grad_pass_through occur only in custom_reduce_prod, '
    'whose forward product, zero count, the two expand_dims and the inner '
    'product all use the same axis symbol and whose upstream gradient '
    'multiplies the whole local gradient; (G3) the local gradient expression '
    'is evaluated symbolically over the zero-pattern domain (entry of '
    'interest zero / non-zero x number of other zeros 0, 1, >= 2) and equals '
    'the derivative prod_{j != i} t_j in every one of the 6 cases; (G2) in the '
    'Lattice (hypercube and simplex), PWLCalibration and '
    'CategoricalCalibration evaluation paths the kernel reaches the output '
    'only through ops linear in it (reshape, transpose, gather, concat, '
    'slicing, negation, sums, multiplication by / matmul with a '
    'kernel-independent tensor), and the other operand of the contraction has '
    'no dataflow from the kernel, so d out / d kernel is that operand. '
    'Non-negativity and sum-to-one of the interpolation weights, and TF\'s '
    'automatic differentiation of the remaining ops, are NOT decided / are '
    'trusted.'
    ' Also decided: the zero-pattern case analysis of the hand-written gradient (G3: entry zero / non-zero x 0, 1, 2+ other zeros) reproduces the derivative of the product; gradient masks take the operand dtype (D1); with clip_inputs on every evaluation path clips (X5); no stale loop variable (X6).')
ASSUMPTIONS = ['tf.math.divide_no_nan(x, 0) == 0; tf autodiff is correct for '
               'built-in ops', 'exactly one custom gradient exists (checked)']

KL = 'kronecker_factored_lattice_lib'


def run(prog, res):
  from ..rules import staleloop as _sl
  _sl.check(prog, res, [f for f in prog.module('lattice_lib').all_functions()
                        if f.parent is None])
  res.floor('X6', 30)
  from ..rules import guards as _g
  for q in ('lattice_lib.compute_interpolation_weights', 'lattice_lib.evaluate_with_simplex_interpolation', 'kronecker_factored_lattice_lib.evaluate_with_hypercube_interpolation'):
    _g.check_clip_paths(prog, res, prog.function(q))
  res.floor('X5', 3)
  from ..rules import dtypes, validate
  dtypes.selfcheck()
  _cl = validate.call_closure(prog, [prog.function(q) for q in ('kronecker_factored_lattice_layer.KroneckerFactoredLattice.call', 'pwl_calibration_layer.PWLCalibration.call', 'categorical_calibration_layer.CategoricalCalibration.call', 'lattice_layer.Lattice.call')],
                              follow_init=False)
  dtypes.check_functions(prog, res, [f for _, f in sorted(_cl.items())])
  res.floor('D1', 10)
  _g1(prog, res)
  _g3(prog, res)
  _g2(prog, res)
  res.floor('G1', 8)
  res.floor('G3', 6)
  res.floor('G2', 8)
  res.exhaustive = True


# ---------------------------------------------------------------------------
def _g1(prog, res):
  special = ('custom_gradient', 'stop_gradient', 'grad_pass_through',
             'RegisterGradient', 'gradient_override_map', 'py_function',
             'numpy_function')
  sites = []
  for f in prog.all_functions():
    for n in ast.walk(f.node):
      d = None
      if isinstance(n, ast.Attribute):
        d = prog.ext_name(f.module, n)
      if d and d.split('.')[-1] in special and d.startswith('tf.'):
        top = f
        while top.parent is not None:
          top = top.parent
        sites.append((top.qualname, d, f.loc(n)))
  sites = sorted(set(sites))
  want = [(KL + '.custom_reduce_prod', 'tf.custom_gradient')]
  got = sorted({(q, d) for q, d, _ in sites})
  res.check(got == want, 'G1', 'who-may-define', 'tensorflow_lattice/python',
            'the only gradient override is tf.custom_gradient in '
            'custom_reduce_prod',
            'gradient overrides found at %s; only custom_reduce_prod may '
            'define one (every other function must be differentiated by TF)' %
            [(q, d, l) for q, d, l in sites if (q, d) not in want] if got !=
            want else '')
  fn = prog.function(KL + '.custom_reduce_prod')
  res.analysed(fn)
  inner = [n for n in ast.walk(fn.node) if isinstance(n, ast.FunctionDef)
           and n is not fn.node]
  names = {n.name: n for n in inner}
  if set(names) != {'fn', 'grad_fn'}:
    raise AnalysisError('custom_reduce_prod: expected inner fn / grad_fn')
  # axis pairing: every axis= inside uses the parameter `axis`
  uses = []
  for c in ast.walk(fn.node):
    if isinstance(c, ast.Call):
      ext = prog.ext_name(fn.module, c.func) or ''
      kw = {k.arg: k.value for k in c.keywords}
      if ext.split('.')[-1] in ('reduce_prod', 'reduce_sum', 'expand_dims'):
        ax = kw.get('axis', c.args[1] if len(c.args) > 1 else None)
        uses.append((ext.split('.')[-1], dotted(ax), c))
  for i, (op, ax, c) in enumerate(uses):
    res.check(ax == 'axis', 'G1', 'custom_reduce_prod|axis:%s#%d' % (op, i),
              fn.loc(c), '%s uses the function\'s axis' % op,
              '%s inside custom_reduce_prod uses axis %s instead of the '
              'reduced axis `axis`: forward and backward disagree' % (op, ax))
  if len(uses) < 6:
    raise AnalysisError('custom_reduce_prod: expected >= 6 axis uses')
  # structure: fn returns (fwd, grad_fn); outer returns fn(t)
  ret = [s for s in names['fn'].body if isinstance(s, ast.Return)]
  good = bool(ret) and isinstance(ret[-1].value, ast.Tuple) and [
      dotted(e) for e in ret[-1].value.elts] == ['fwd', 'grad_fn']
  res.check(good, 'G1', 'custom_reduce_prod|returns', fn.loc(),
            'fn returns (fwd, grad_fn)', 'fn does not return (fwd, grad_fn)')
  outer = [s for s in fn.node.body if isinstance(s, ast.Return)]
  good = bool(outer) and isinstance(outer[-1].value, ast.Call) and dotted(
      outer[-1].value.func) == 'fn' and [dotted(a) for a in
                                         outer[-1].value.args] == ['t']
  res.check(good, 'G1', 'custom_reduce_prod|applies', fn.loc(),
            'custom_reduce_prod returns fn(t)',
            'custom_reduce_prod does not return fn(t)')
  fwd = [s for s in names['fn'].body if isinstance(s, ast.Assign)
         and dotted(s.targets[0]) == 'fwd']
  good = bool(fwd) and isinstance(fwd[0].value, ast.Call) and prog.ext_name(
      fn.module, fwd[0].value.func) == 'tf.reduce_prod' and dotted(
          fwd[0].value.args[0]) == 't'
  res.check(good, 'G1', 'custom_reduce_prod|forward', fn.loc(),
            'forward value is tf.reduce_prod(t, axis)',
            'the forward value is not tf.reduce_prod(t, axis=axis)')
  # the only caller passes the dims axis of the 5-D tensor
  ev = prog.function(KL + '.evaluate_with_hypercube_interpolation')
  calls = [c for c in ast.walk(ev.node) if isinstance(c, ast.Call)
           and prog.resolve_call(ev, c) is fn]
  good = len(calls) == 1 and const_value({k.arg: k.value for k in
                                          calls[0].keywords}.get(
                                              'axis', calls[0].args[1] if len(
                                                  calls[0].args) > 1 else
                                              None)) == -2
  res.check(good, 'G1', 'custom_reduce_prod|call-axis', ev.loc(),
            'product over the dims axis (-2) of (batch, rows, units, dims, '
            'terms)',
            'custom_reduce_prod is not called once with axis=-2 (dims)')


# ---------------------------------------------------------------------------
class Z(object):
  """value at the entry of interest i (or reduced over the axis):
  coef * P^p * t_i^q where P = product of all non-zero entries; `zero`
  when exactly 0; or a small integer count."""

  def __init__(self, coef=0, p=0, q=0):
    self.coef, self.p, self.q = Fraction(coef), p, q
    if self.coef == 0:
      self.p = self.q = 0

  def __eq__(self, o):
    return isinstance(o, Z) and (self.coef, self.p, self.q) == (
        o.coef, o.p, o.q)

  def __hash__(self):
    return hash((self.coef, self.p, self.q))

  def __repr__(self):
    if self.coef == 0:
      return '0'
    return '%s*P^%d*t_i^%d' % (self.coef, self.p, self.q)


def _g3(prog, res):
  fn = prog.function(KL + '.custom_reduce_prod')
  grad = [n for n in ast.walk(fn.node) if isinstance(n, ast.FunctionDef)
          and n.name == 'grad_fn'][0]
  # the indicator of "zero" must be the exact test: the other branch divides
  # with divide_no_nan, for which only an exact 0 is zero.  A tolerance
  # (|t| < 1e-7) makes a tiny non-zero factor count in BOTH branches.
  zdefs = [st for st in grad.body if isinstance(st, ast.Assign) and dotted(
      st.targets[0]) == 'is_zero']
  tolerance = None
  for st in zdefs:
    v = st.value
    while isinstance(v, ast.Call) and (prog.ext_name(fn.module, v.func) or
                                       '').split('.')[-1] == 'cast':
      v = v.args[0]
    ext = (prog.ext_name(fn.module, v.func) or '').split('.')[-1] if \
        isinstance(v, ast.Call) else None
    lhs = rhs = None
    if isinstance(v, ast.Compare) and len(v.ops) == 1 and isinstance(
        v.ops[0], (ast.Lt, ast.LtE)):
      lhs, rhs = v.left, v.comparators[0]
    elif ext in ('less', 'less_equal') and len(v.args) == 2:
      lhs, rhs = v.args
    if lhs is not None and isinstance(lhs, ast.Call) and (prog.ext_name(
        fn.module, lhs.func) or '').split('.')[-1] == 'abs' and isinstance(
            const_value(rhs, None), (int, float)):
      tolerance = st
  if tolerance is not None:
    res.violation('G3', 'custom_reduce_prod|zero-test', fn.loc(tolerance),
                  '`%s`: a factor with 0 < |t| below the tolerance counts as '
                  'a zero in the single-zero branch AND as non-zero in '
                  'divide_no_nan(fwd, t): its partial derivative is added '
                  'twice (and an exact zero next to it loses its gradient)' %
                  norm_text(tolerance)[:70])
    return
  # cases: i zero / non-zero  x  number of OTHER zeros 0 / 1 / 2+
  for i_zero in (False, True):
    for others in (0, 1, 2):
      nz = others + (1 if i_zero else 0)
      env = {}

      def val(e):
        if isinstance(e, ast.Constant):
          if not isinstance(e.value, (int, float)) or isinstance(
              e.value, bool):
            return ('opaque', e.value)
          return Z(e.value)
        d = dotted(e)
        if d == 't':
          return Z(0) if i_zero else Z(1, 0, 1)
        if d == 'fwd':
          return Z(0) if nz > 0 else Z(1, 1, 0)
        if d == 'dy':
          return ('dy',)
        if d in env:
          return env[d]
        if isinstance(e, ast.BinOp):
          l, r = val(e.left), val(e.right)
          if isinstance(e.op, ast.Add):
            if d is None and norm_text(e).replace(' ', '') == 't+is_zero':
              # entry value with zeros replaced by one
              return Z(1) if i_zero else Z(1, 0, 1)
            if isinstance(l, Z) and isinstance(r, Z):
              if l.coef == 0:
                return r
              if r.coef == 0:
                return l
              if (l.p, l.q) == (r.p, r.q):
                return Z(l.coef + r.coef, l.p, l.q)
            raise AnalysisError('grad_fn: sum %s' % norm_text(e))
          if isinstance(e.op, ast.Mult):
            if l == ('dy',):
              return ('dy*', r)
            if r == ('dy',):
              return ('dy*', l)
            if isinstance(l, Z) and isinstance(r, Z):
              return Z(l.coef * r.coef, l.p + r.p, l.q + r.q)
          raise AnalysisError('grad_fn: operator in %s' % norm_text(e))
        if isinstance(e, ast.Call):
          ext = prog.ext_name(fn.module, e.func) or ''
          op = ext.split('.')[-1]
          a = e.args
          if op == 'cast':
            return val(a[0])
          if op == 'equal':
            x, c = val(a[0]), const_value(a[1])
            if isinstance(x, Z) and c == 0:
              return Z(1 if x.coef == 0 else 0)
            if isinstance(x, tuple) and x[0] == 'count':
              return Z(1 if x[1] == c or (x[1] >= 2 and c >= 2) else 0)
            raise AnalysisError('grad_fn: equal(%s)' % norm_text(e))
          if op in ('greater', 'greater_equal', 'less', 'less_equal',
                    'not_equal'):
            x, c = val(a[0]), const_value(a[1])
            if isinstance(x, tuple) and x[0] == 'count' and isinstance(
                c, (int, float)):
              # the abstract count 2 stands for "two or more"
              cnt = x[1]
              if cnt >= 2 and c >= 2 and op in ('less', 'less_equal',
                                                'not_equal', 'greater'):
                raise AnalysisError('grad_fn: %s cannot be decided for "two or '
                                    'more" zeros' % norm_text(e))
              r = {'greater': cnt > c, 'greater_equal': cnt >= c,
                   'less': cnt < c, 'less_equal': cnt <= c,
                   'not_equal': cnt != c}[op]
              return Z(1 if r else 0)
            raise AnalysisError('grad_fn: %s(%s)' % (op, norm_text(e)))
          if op == 'reduce_sum':
            x = a[0]
            if dotted(x) == 'is_zero':
              return ('count', nz)
            raise AnalysisError('grad_fn: reduce_sum(%s)' % norm_text(x))
          if op in ('reduce_max', 'reduce_any') and dotted(a[0]) == 'is_zero':
            return Z(1 if nz > 0 else 0)      # "some factor is zero"
          if op in ('reduce_min', 'reduce_all') and dotted(a[0]) == 'is_zero':
            raise AnalysisError('grad_fn: %s(is_zero) needs the axis length' %
                                op)
          if op == 'reduce_prod':
            # product over the axis of (t + is_zero) = P
            if norm_text(a[0]).replace(' ', '') == 't+is_zero':
              return Z(1, 1, 0)
            if dotted(a[0]) == 't':
              return Z(0) if nz > 0 else Z(1, 1, 0)
            raise AnalysisError('grad_fn: reduce_prod(%s)' % norm_text(a[0]))
          if op == 'expand_dims':
            return val(a[0])
          if op == 'divide_no_nan':
            x, y = val(a[0]), val(a[1])
            if y.coef == 0:
              return Z(0)
            return Z(x.coef / y.coef, x.p - y.p, x.q - y.q)
        raise AnalysisError('grad_fn: %s is outside the zero-pattern '
                            'evaluator' % norm_text(e)[:50])

      out = None
      for st in grad.body:
        if isinstance(st, ast.Expr):
          continue
        if isinstance(st, ast.Assign):
          env[dotted(st.targets[0])] = val(st.value)
        elif isinstance(st, ast.Return):
          out = val(st.value)
      key = 'custom_reduce_prod|entry_%s,other_zeros=%s' % (
          'zero' if i_zero else 'nonzero', '2+' if others == 2 else others)
      # expected derivative prod_{j != i} t_j
      if others > 0:
        exp = Z(0)
      elif i_zero:
        exp = Z(1, 1, 0)
      else:
        exp = Z(1, 1, -1)
      good = isinstance(out, tuple) and out[0] == 'dy*' and out[1] == exp
      res.check(good, 'G3', key, fn.loc(grad),
                'local gradient %s = prod_{j != i} t_j, times dy' % (
                    out[1] if isinstance(out, tuple) and len(out) > 1
                    else out),
                'with the entry of interest %s and %s other zero(s) on the '
                'axis the hand-written gradient evaluates to %s but the '
                'derivative of the product is %s' % (
                    'zero' if i_zero else 'non-zero',
                    '2 or more' if others == 2 else others, out, exp))


# ---------------------------------------------------------------------------
LINEAR_UNARY = {'reshape', 'transpose', 'gather', 'gather_nd', 'expand_dims',
                'squeeze', 'identity', 'reduce_sum', 'reduce_mean', 'split',
                'unstack', 'stack', 'concat', 'tile', 'negative', 'reverse',
                'pad', 'convert_to_tensor'}
BILINEAR = {'matmul', 'multiply', 'tensordot', 'einsum'}


def _g2(prog, res):
  paths = [
      ('lattice_lib.evaluate_with_hypercube_interpolation', ['kernel']),
      ('lattice_lib.evaluate_with_simplex_interpolation', ['kernel']),
      ('pwl_calibration_layer.PWLCalibration.call', ['self.kernel']),
      ('categorical_calibration_layer.CategoricalCalibration.call',
       ['self.kernel']),
  ]
  for q, roots in paths:
    fn = prog.function(q)
    res.analysed(fn)
    tainted = set(roots)
    assigns = []
    for n in ast.walk(fn.node):
      if isinstance(n, ast.Assign):
        for t in n.targets:
          assigns.append((t, n.value))
      elif isinstance(n, ast.AugAssign):
        assigns.append((n.target, n.value))

    def is_t(e):
      # value uses only: `<tainted>.dtype` / `.shape` read metadata, no data
      meta = set()
      for x in ast.walk(e):
        if isinstance(x, ast.Attribute) and x.attr in ('dtype', 'shape'):
          for y in ast.walk(x.value):
            meta.add(id(y))
      for x in ast.walk(e):
        if id(x) in meta:
          continue
        if isinstance(x, ast.Name) and x.id in tainted:
          return True
        if isinstance(x, ast.Attribute) and dotted(x) in tainted:
          return True
      return False
    changed = True
    while changed:
      changed = False
      for t, v in assigns:
        if is_t(v):
          for x in ast.walk(t):
            nm = dotted(x) if isinstance(x, (ast.Name, ast.Attribute)) else None
            if nm and nm not in tainted and not nm.startswith('self._'):
              tainted.add(nm)
              changed = True
    nonlinear = []
    contractions = 0

    def check_expr(e):
      """True when e is linear in the kernel (given taint)"""
      nonlocal contractions
      if not is_t(e):
        return True
      if isinstance(e, (ast.Name, ast.Attribute)):
        return True
      if isinstance(e, ast.Subscript):
        return check_expr(e.value) and not is_t(e.slice)
      if isinstance(e, ast.UnaryOp) and isinstance(e.op, ast.USub):
        return check_expr(e.operand)
      if isinstance(e, ast.BinOp):
        tl, tr = is_t(e.left), is_t(e.right)
        if isinstance(e.op, (ast.Add, ast.Sub)):
          return check_expr(e.left) and check_expr(e.right)
        if isinstance(e.op, ast.Mult):
          if tl and tr:
            nonlinear.append(e)
            return False
          contractions += 1
          return check_expr(e.left if tl else e.right)
        if isinstance(e.op, ast.Div):
          if tr:
            nonlinear.append(e)
            return False
          return check_expr(e.left)
        nonlinear.append(e)
        return False
      if isinstance(e, (ast.List, ast.Tuple)):
        return all(check_expr(x) for x in e.elts)
      if isinstance(e, ast.Call):
        ext = prog.ext_name(fn.module, e.func) or ''
        op = ext.split('.')[-1]
        targs = [a for a in list(e.args) + [k.value for k in e.keywords]
                 if is_t(a)]
        if op in LINEAR_UNARY:
          # the tainted argument must be the data argument, not an index
          if op in ('gather', 'gather_nd') and len(e.args) > 1 and is_t(
              e.args[1]):
            nonlinear.append(e)
            return False
          return all(check_expr(a) for a in targs)
        if op in BILINEAR:
          if len(targs) != 1:
            nonlinear.append(e)
            return False
          contractions += 1
          return check_expr(targs[0])
        nonlinear.append(e)
        return False
      nonlinear.append(e)
      return False

    rets = [s for s in ast.walk(fn.node) if isinstance(s, ast.Return)
            and s.value is not None]
    ok = True
    for t, v in assigns:
      if is_t(v):
        ok = check_expr(v) and ok
    for r in rets:
      if is_t(r.value):
        ok = check_expr(r.value) and ok
    # control flow must not depend on kernel values
    for n in ast.walk(fn.node):
      if isinstance(n, (ast.If, ast.While)) and is_t(n.test):
        # shape / dtype tests are fine
        meta = all(isinstance(x, ast.Attribute) and x.attr in (
            'shape', 'dtype') or not (isinstance(x, ast.Name) and x.id in
                                      tainted)
                   for x in ast.walk(n.test))
        if not meta:
          nonlinear.append(n.test)
          ok = False
    res.check(ok and not nonlinear, 'G2', '%s|linear-in-kernel' % q, fn.loc(),
              'the kernel reaches the output only through linear ops',
              'the kernel passes through a non-linear op on its way to the '
              'output: %s - d out / d kernel is no longer the interpolation '
              'weight' % [norm_text(x)[:50] for x in nonlinear[:3]])
    res.check(contractions >= 1, 'G2', '%s|contraction' % q, fn.loc(),
              '%d product(s) of the kernel with kernel-independent weights' %
              contractions,
              'no contraction of the kernel with a kernel-independent tensor '
              'found')
  # the weights fed to the contraction do not depend on the kernel:
  # compute_interpolation_weights is called without the kernel
  for q, callee in (('lattice_lib.evaluate_with_hypercube_interpolation',
                     'lattice_lib.compute_interpolation_weights'),
                    ('pwl_calibration_layer.PWLCalibration.call',
                     'pwl_calibration_lib.compute_interpolation_weights')):
    fn = prog.function(q)
    t = prog.function(callee)
    calls = [c for c in ast.walk(fn.node) if isinstance(c, ast.Call)
             and prog.resolve_call(fn, c) is t]
    good = bool(calls) and not any(
        'kernel' in {n.split('.')[-1] for n in names_read(a)}
        for c in calls for a in list(c.args) + [k.value for k in c.keywords])
    res.check(good, 'G2', '%s|weights-independent' % q, fn.loc(),
              'interpolation weights are computed without the kernel',
              'the interpolation weights depend on the kernel')
