"""C13 - regularizers are l1/l2 norms of shift-polynomial differences (L6)."""
import ast
from fractions import Fraction

from ..model import (AnalysisError, expand_aug, dotted, norm_text, names_read, const_value,
                     is_none)
from ..cfg import structural_guards
from ..rules import shiftpoly
from ..rules.shiftpoly import SP

TECHNIQUE = ('slice algebra: every difference expression is normalised to a '
             'polynomial in shift operators and compared with (S-1)^k / '
             '(S_i-1)(S_j-1); axis/amount index agreement; norm structure')
EXPLANATION = (
    'Static analysis of the structure of the regularizers, universal over '
    'kernels and sizes: the lattice Laplacian term for dimension d is '
    'l1[d]*|(S_d-1)w|_1 + l2[d]*|(S_d-1)w|_2^2 where the transposition moves '
    'the same d to the front that sizes the reshape and indexes the amounts; '
    'torsion is (S_i-1)(S_j-1)w weighted by l[i]*l[j] with scalar amounts '
    'replaced by their square roots; the trailing units axis gets amount 0; '
    'PWL kernel rows >= 1 are first differences of keypoint outputs y, so '
    'the Laplacian / Hessian / wrinkle slices reduce to (S-1)y, (S-1)^2 y, '
    '(S-1)^3 y (bias row excluded); with is_cyclic the closing height '
    '-sum(heights) and the first k-1 heights are appended in order; every '
    'term is amount * reduce_sum(abs(.)) or amount * reduce_sum(square(.)). '
    'Kernels of (S-1)^k are the polynomials of degree < k, which gives the '
    '"vanishes on constant / linear / quadratic / separable" clauses; '
    'non-negativity and linearity in l1, l2 follow from the abs/square/sum '
    'structure. Floating-point evaluation is trusted.'
    ' Also decided (L6 amounts): the two lattice regularizers are evaluated with tensors opaque on 50 configurations each (amounts absent / scalar / list / tuple with zeros, units 1 and 2) and the multiset of (norm, dimension(s), coefficient) terms equals the documented sum (skip guards, square roots, zero-weighted units axis); PWL regularizers give up only on kernels the property excepts (size guards); all return values are tensors of the kernel dtype (D1); tuple amounts are handled (T3).')
ASSUMPTIONS = ['tensor slicing, tf.transpose and tf.reshape (row-major) '
               'semantics', 'PWL kernel = [bias; heights]']

LL = 'lattice_lib'
PL = 'pwl_calibration_layer'


def run(prog, res):
  from ..rules import dtypes
  dtypes.selfcheck()
  regs = [prog.function(q) for q in (
      'lattice_lib.laplacian_regularizer', 'lattice_lib.torsion_regularizer',
      'pwl_calibration_layer.LaplacianRegularizer.__call__',
      'pwl_calibration_layer.HessianRegularizer.__call__',
      'pwl_calibration_layer.WrinkleRegularizer.__call__')]
  dtypes.check_tensor_returns(prog, res, regs)
  dtypes.check_functions(prog, res, regs)
  res.floor('D1', 5)
  from ..rules import seqkind
  seqkind.selfcheck()
  for q in ('lattice_lib.laplacian_regularizer', 'lattice_lib.torsion_regularizer'):
    seqkind.check_function(prog, res, prog.function(q))
  res.floor('T3', 6)
  _amount_semantics(prog, res)
  _lattice_laplacian(prog, res)
  _lattice_torsion(prog, res)
  for cls, k in (('LaplacianRegularizer', 1), ('HessianRegularizer', 2),
                 ('WrinkleRegularizer', 3)):
    _pwl(prog, res, cls, k)
  _pwl_size_guards(prog, res)
  _layer_forwarding(prog, res)
  res.floor('L6', 35)


def _defs(fn):
  d = {}
  for st in ast.walk(fn.node):
    st = expand_aug(st)
    if isinstance(st, ast.Assign) and isinstance(st.targets[0], ast.Name):
      d.setdefault(st.targets[0].id, []).append(st)
  return d


def _norm_terms(prog, fn, res, key, operand_name, amount_check):
  """result += reduce_sum(abs(X)) * A  /  reduce_sum(square(X)) * A under
  `if l1:` / `if l2:`; returns nothing, records obligations."""
  found = {}
  for st in ast.walk(fn.node):
    v = None
    if isinstance(st, ast.AugAssign) and isinstance(st.op, ast.Add):
      v = st.value
    elif isinstance(st, ast.Expr) and isinstance(st.value, ast.Call) and \
        isinstance(st.value.func, ast.Attribute) and \
        st.value.func.attr == 'append':
      v = st.value.args[0]
    elif isinstance(st, ast.Assign) and len(st.targets) == 1 and isinstance(
        st.targets[0], ast.Name) and isinstance(st.value, ast.BinOp) and \
        isinstance(st.value.op, ast.Mult):
      # accumulated directly: result = amount * reduce_sum(...)
      v = st.value
    if v is None:
      continue
    calls = [c for c in ast.walk(v) if isinstance(c, ast.Call) and
             prog.ext_name(fn.module, c.func) == 'tf.reduce_sum']
    if len(calls) != 1:
      continue
    rs = calls[0]
    inner = rs.args[0]
    if not isinstance(inner, ast.Call):
      continue
    fnm = prog.ext_name(fn.module, inner.func)
    which = {'tf.abs': 'l1', 'tf.math.abs': 'l1', 'tf.square': 'l2',
             'tf.math.square': 'l2'}.get(fnm)
    if which is None or dotted(inner.args[0]) != operand_name:
      continue
    full = not rs.keywords and len(rs.args) == 1
    gs = structural_guards(fn.node, st) or []
    guard_ok = any(pol and which in {n.split('.')[-1] for n in names_read(t)}
                   for t, pol in gs)
    # the amount factors: everything multiplied with the reduce_sum
    factors = []

    def collect(e):
      if isinstance(e, ast.BinOp) and isinstance(e.op, ast.Mult):
        collect(e.left)
        collect(e.right)
      elif e is not rs:
        factors.append(e)
    collect(v)
    found.setdefault(which, []).append((st, full, guard_ok, factors))
  for which, fnname in (('l1', 'abs'), ('l2', 'square')):
    k = '%s|%s-term' % (key, which)
    if which not in found:
      res.violation('L6', k, fn.loc(),
                    'no term %s * reduce_sum(%s(%s)) found' % (
                        which, fnname, operand_name))
      continue
    probs = []
    for st, full, guard_ok, factors in found[which]:
      if not full:
        probs.append('reduce_sum is not over all entries')
      if not guard_ok:
        probs.append('term is not guarded by `if %s`' % which)
      probs += amount_check(which, factors)
    res.check(not probs, 'L6', k, fn.loc(found[which][-1][0]),
              '%s-amount * reduce_sum(%s(%s)) over all entries' % (
                  which, fnname, operand_name), '; '.join(probs))
  return found


def _accumulated_directly(fn, found):
  """True when every term statement stores into one local R that is returned,
  a plain `R = term` occurs only as the first term statement or under
  `if R is None`, and an `R += term` that is not the first term statement is
  not itself under `R is None` (so no term is overwritten or lost); None when
  the terms are not accumulated in this way."""
  sts = sorted({id(t[0]): t[0] for ts in found.values() for t in ts}.values(),
               key=lambda s: (s.lineno, s.col_offset))
  if not sts or not all(isinstance(s, (ast.Assign, ast.AugAssign))
                        for s in sts):
    return None
  names = {dotted(s.targets[0] if isinstance(s, ast.Assign) else s.target)
           for s in sts}
  if len(names) != 1:
    return None
  r = names.pop()
  if not any(isinstance(s, ast.Return) and s.value is not None and
             dotted(s.value) == r for s in ast.walk(fn.node)):
    return None
  first_which = None
  for i, s in enumerate(sts):
    gs = structural_guards(fn.node, s) or []
    none_guard = any(pol and norm_text(t).replace(' ', '') == '%sisNone' % r
                     for t, pol in gs)
    if isinstance(s, ast.Assign):
      if i and not none_guard:
        return False
    elif none_guard:
      return False
  # R starts as None or is first bound by the first term statement
  return True


def _units_axis_amount(prog, res, fn, key):
  """when units > 1 the units axis is appended to lattice_sizes together with
  an amount of 0.0 for l1 and l2"""
  ok = False
  for st in ast.walk(fn.node):
    if isinstance(st, ast.If):
      adds = {}
      for a in ast.walk(st):
        if isinstance(a, ast.Assign) and isinstance(a.value, ast.BinOp) and \
            isinstance(a.value.op, ast.Add) and isinstance(a.value.right,
                                                          ast.List):
          adds[dotted(a.targets[0])] = a.value.right
      if 'lattice_sizes' in adds:
        ok = all(nm in adds and len(adds[nm].elts) == 1 and const_value(
            adds[nm].elts[0]) == 0.0 for nm in ('l1', 'l2'))
  res.check(ok, 'L6', key + '|units-amount', fn.loc(),
            'the appended units axis gets amount 0.0 for l1 and l2',
            'the units axis is appended to lattice_sizes without a 0.0 amount '
            'for both l1 and l2: differences ACROSS units would be penalised')


def _lattice_laplacian(prog, res):
  fn = prog.function(LL + '.laplacian_regularizer')
  res.analysed(fn)
  d = _defs(fn)
  key = 'laplacian_regularizer'
  diff = d.get('diff', [None])[0]
  if diff is None:
    raise AnalysisError('laplacian_regularizer: diff vanished')
  p = shiftpoly.eval_seq(diff.value, {'slices': SP.base()})
  res.check(p.normalised() == shiftpoly.diff_power(1), 'L6',
            key + '|operator', fn.loc(diff),
            'diff = (S - 1) slices: adjacent-vertex differences',
            'diff is the operator %s, expected the first difference S - 1' % p)
  # axis agreement: permut swaps 0 and dim; reshape [lattice_sizes[dim], -1]
  # (the local that holds the permutation may have any name: it is the one
  # handed to tf.transpose(weights, perm=...))
  pname = None
  for c in ast.walk(fn.node):
    if isinstance(c, ast.Call) and prog.ext_name(
        fn.module, c.func) == 'tf.transpose' and dotted(c.args[0]) == 'weights':
      pname = dotted({k.arg: k.value for k in c.keywords}.get(
          'perm', c.args[1] if len(c.args) > 1 else None))
  if pname is None:
    raise AnalysisError('laplacian_regularizer: tf.transpose(weights, perm) '
                        'not found')
  tr = True
  swap = any(isinstance(st, ast.Assign) and isinstance(st.targets[0], ast.Tuple)
             and isinstance(st.value, ast.Tuple)
             and [norm_text(t) for t in st.targets[0].elts] ==
             ['%s[0]' % pname, '%s[dim]' % pname] and
             [norm_text(t) for t in st.value.elts] ==
             ['%s[dim]' % pname, '%s[0]' % pname] for st in ast.walk(fn.node))
  rs = [st for st in d.get('slices', []) if isinstance(st.value, ast.Call)
        and prog.ext_name(fn.module, st.value.func) == 'tf.reshape']
  shp = None
  if rs:
    kw = {k.arg: k.value for k in rs[0].value.keywords}
    shp = kw.get('shape', rs[0].value.args[1] if len(rs[0].value.args) > 1
                 else None)
  shp_ok = isinstance(shp, ast.List) and len(shp.elts) == 2 and norm_text(
      shp.elts[0]) == 'lattice_sizes[dim]' and const_value(shp.elts[1]) == -1
  res.check(swap and tr and shp_ok, 'L6', key + '|axis', fn.loc(),
            'dimension `dim` is moved to axis 0 and sizes the reshape',
            'the differenced axis is not consistently `dim` (swap permut[0]<->'
            'permut[dim]: %s, transpose(weights, permut): %s, reshape '
            '[lattice_sizes[dim], -1]: %s)' % (swap, tr, shp_ok))

  def amount(which, factors):
    txt = [norm_text(f).replace(' ', '') for f in factors]
    return [] if txt == ['%s[dim]' % which] else [
        'amount is %s, expected %s[dim] (the amount of the differenced '
        'dimension)' % (txt, which)]
  _norm_terms(prog, fn, res, key, 'diff', amount)
  _units_axis_amount(prog, res, fn, key)
  # scalar amounts are broadcast to every dimension
  for which in ('l1', 'l2'):
    ok = any(isinstance(st.value, ast.BinOp) and isinstance(
        st.value.op, ast.Mult) and isinstance(st.value.left, ast.List)
             and dotted(st.value.left.elts[0]) == which and dotted(
                 st.value.right) == 'rank' for st in d.get(which, []))
    res.check(ok, 'L6', key + '|scalar-%s' % which, fn.loc(),
              'a scalar %s applies to every dimension' % which,
              'a scalar %s is not expanded to [%s] * rank' % (which, which))


def _lattice_torsion(prog, res):
  fn = prog.function(LL + '.torsion_regularizer')
  res.analysed(fn)
  d = _defs(fn)
  key = 'torsion_regularizer'
  env = {'planes': SP.base()}
  for nm in ('a00', 'a01', 'a10', 'a11'):
    if nm in d:
      env[nm] = shiftpoly.eval_seq(d[nm][0].value, env)
  tor = d.get('torsion', [None])[0]
  if tor is None:
    raise AnalysisError('torsion_regularizer: torsion vanished')
  p = shiftpoly.eval_seq(tor.value, env)
  want = SP(shiftpoly.diff_power(1, 0), (0, 0)).mul(
      SP(shiftpoly.diff_power(1, 1), (0, 0))).normalised()
  res.check(p.normalised() == want, 'L6', key + '|operator', fn.loc(tor),
            'torsion = (S_i - 1)(S_j - 1) planes: the 2x2 twist',
            'torsion is the operator %s, expected (S0 - 1)(S1 - 1) = S0*S1 - '
            'S0 - S1 + 1 (it would not vanish on additively separable '
            'kernels)' % p)
  swaps = [(norm_text(st.targets[0]), norm_text(st.value))
           for st in ast.walk(fn.node)
           if isinstance(st, ast.Assign) and isinstance(st.targets[0],
                                                        ast.Tuple)]
  pname = None
  for c in ast.walk(fn.node):
    if isinstance(c, ast.Call) and prog.ext_name(
        fn.module, c.func) == 'tf.transpose' and dotted(c.args[0]) == 'weights':
      pname = dotted({k.arg: k.value for k in c.keywords}.get(
          'perm', c.args[1] if len(c.args) > 1 else None))
  if pname is None:
    raise AnalysisError('torsion_regularizer: tf.transpose(weights, perm) '
                        'not found')
  sw = (('({0}[0], {0}[i])'.format(pname),
         '({0}[i], {0}[0])'.format(pname)) in swaps and
        ('({0}[1], {0}[j])'.format(pname),
         '({0}[j], {0}[1])'.format(pname)) in swaps)
  rs = [st for st in d.get('planes', []) if isinstance(st.value, ast.Call)
        and prog.ext_name(fn.module, st.value.func) == 'tf.reshape']
  shp_ok = False
  if rs:
    kw = {k.arg: k.value for k in rs[0].value.keywords}
    shp = kw.get('shape', rs[0].value.args[1] if len(rs[0].value.args) > 1
                 else None)
    shp_ok = isinstance(shp, ast.List) and [norm_text(e) for e in shp.elts] \
        == ['lattice_sizes[i]', 'lattice_sizes[j]', '-1']
  res.check(sw and shp_ok, 'L6', key + '|axes', fn.loc(),
            'dimensions (i, j) are moved to axes (0, 1) and size the reshape',
            'the twisted axes are not consistently (i, j) (swaps: %s, reshape '
            '[lattice_sizes[i], lattice_sizes[j], -1]: %s)' % (sw, shp_ok))
  # j == 1 shortcut is only valid for i == 0: guaranteed by i < j
  loops = [l for l in ast.walk(fn.node) if isinstance(l, ast.For)]
  rng = {dotted(l.target): norm_text(l.iter).replace(' ', '') for l in loops}
  res.check(rng.get('i') == 'range(rank-1)' and rng.get('j') ==
            'range(i+1,rank)', 'L6', key + '|pairs', fn.loc(),
            'every unordered pair i < j once',
            'the pair loops are %s, expected i in range(rank-1), j in '
            'range(i+1, rank)' % rng)

  def amount(which, factors):
    txt = sorted(norm_text(f).replace(' ', '') for f in factors)
    return [] if txt == sorted(['%s[i]' % which, '%s[j]' % which]) else [
        'amount is %s, expected %s[i] * %s[j]' % (txt, which, which)]
  _norm_terms(prog, fn, res, key, 'torsion', amount)
  _units_axis_amount(prog, res, fn, key)
  for which in ('l1', 'l2'):
    ok = False
    for st in d.get(which, []):
      v = st.value
      if isinstance(v, ast.BinOp) and isinstance(v.op, ast.Mult) and \
          isinstance(v.left, ast.List) and dotted(v.right) == 'rank':
        e = v.left.elts[0]
        ok = isinstance(e, ast.Call) and dotted(e.func) in (
            'math.sqrt', 'np.sqrt') and dotted(e.args[0]) == which
    res.check(ok, 'L6', key + '|scalar-%s' % which, fn.loc(),
              'a scalar %s becomes [sqrt(%s)] * rank so that the pair weight '
              'is %s' % (which, which, which),
              'a scalar %s is not expanded to [sqrt(%s)] * rank: the pair '
              'weight %s[i]*%s[j] would be %s^2' % (which, which, which,
                                                    which, which))


def _pwl(prog, res, cls_name, order):
  cls = prog.cls('%s.%s' % (PL, cls_name))
  fn = cls.methods['__call__']
  res.analysed(fn)
  key = '%s.%s' % (PL, cls_name)
  # collect the non-cyclic and cyclic definitions
  cyc = None
  for st in ast.walk(fn.node):
    if isinstance(st, ast.If) and dotted(st.test) == 'self.is_cyclic':
      cyc = st
  if cyc is None:
    raise AnalysisError('%s.__call__: is_cyclic branch vanished' % cls_name)
  final_name = {1: 'heights', 2: 'nonlinearity', 3: 'wrinkleness'}[order]

  def poly_for(cyclic):
    env = {'x': SP.base()}
    # statements in order, taking the right branch of the cyclic test
    def run(stmts):
      for st in stmts:
        if st is cyc:
          run(st.body if cyclic else st.orelse)
          continue
        if isinstance(st, ast.If):
          continue
        if isinstance(st, ast.Assign) and isinstance(st.targets[0], ast.Name):
          v = st.value
          if isinstance(v, ast.Call) and prog.ext_name(
              fn.module, v.func) == 'tf.concat':
            # periodic extension: same operator on the extended sequence
            env[st.targets[0].id] = env.get('heights', SP.base())
            env['__concat__'] = v
            continue
          try:
            env[st.targets[0].id] = shiftpoly.eval_seq(v, env)
          except AnalysisError:
            pass
    run(fn.node.body)
    return env
  env = poly_for(False)
  if final_name not in env:
    raise AnalysisError('%s.__call__: %s not derivable' % (cls_name,
                                                           final_name))
  px = env[final_name]
  # rows of x from index 1 on are first differences of the outputs y
  res.check(px.min_offset(0) >= 1, 'L6', key + '|bias-excluded', fn.loc(),
            'only rows >= 1 (heights) enter the penalty',
            'row 0 (the bias = first keypoint output) enters the penalty: '
            'operator %s' % px)
  py = px.mul(SP({(0, 0): 1, (-1, 0): -1}, (0, 0)))
  res.check(py.normalised() == shiftpoly.diff_power(order), 'L6',
            key + '|operator', fn.loc(),
            'in terms of keypoint outputs y the penalised sequence is '
            '(S - 1)^%d y' % order,
            'in terms of keypoint outputs the penalised sequence is %s, '
            'expected the %s difference (S - 1)^%d' % (
                py, {1: 'first', 2: 'second', 3: 'third'}[order], order))
  # cyclic: heights extended by the closing height and the first k-1 heights
  envc = poly_for(True)
  cc = envc.get('__concat__')
  probs = []
  if cc is None:
    probs.append('no periodic extension (tf.concat) in the cyclic branch')
  else:
    parts = cc.args[0].elts if isinstance(cc.args[0], ast.List) else []
    kw = {k.arg: k.value for k in cc.keywords}
    if const_value(kw.get('axis', cc.args[1] if len(cc.args) > 1 else None)) \
        != 0:
      probs.append('extension is not along the keypoint axis 0')
    # the heights are the rows of x from 1 on, under that name or directly
    def is_h(e):
      return e is not None and norm_text(e).replace(' ', '') in (
          'heights', 'x[1:]')
    if not parts or not is_h(parts[0]):
      probs.append('extension does not start with heights')
    closing = parts[1] if len(parts) > 1 else None
    ok_close = (isinstance(closing, ast.UnaryOp) and isinstance(
        closing.op, ast.USub) and isinstance(closing.operand, ast.Call)
                and prog.ext_name(fn.module, closing.operand.func) ==
                'tf.reduce_sum' and is_h(closing.operand.args[0]))
    if ok_close:
      ckw = {k.arg: k.value for k in closing.operand.keywords}
      ok_close = const_value(ckw.get('axis')) == 0 and const_value(
          ckw.get('keepdims')) is True
    if not ok_close:
      probs.append('the closing height is not -reduce_sum(heights, axis=0, '
                   'keepdims=True)')
    wrap = [norm_text(p).replace(' ', '').replace('x[1:][', 'heights[')
            for p in parts[2:]]
    want = ['heights[%s:%d]' % (i or '', i + 1) for i in range(order - 1)]
    if wrap != want:
      probs.append('wrap-around rows are %s, expected %s' % (wrap, want))
    # the same difference operator is applied to the extended sequence
    pc = envc.get(final_name)
    base = envc.get('heights')
    if order > 1:
      if pc is None or pc.normalised() != SP(
          shiftpoly.diff_power(order - 1), (0, 0)).normalised():
        probs.append('cyclic branch applies %s to the extended heights, '
                     'expected (S - 1)^%d' % (pc, order - 1))
  res.check(not probs, 'L6', key + '|cyclic', fn.loc(cyc),
            'cyclic: heights + closing height + first %d height(s), then the '
            'same differences' % (order - 1), '; '.join(probs))

  def amount(which, factors):
    txt = [norm_text(f).replace(' ', '') for f in factors]
    return [] if txt == ['self.%s' % which] else [
        'amount is %s, expected self.%s' % (txt, which)]
  found = _norm_terms(prog, fn, res, key, final_name, amount)
  # the result is the sum of the collected terms
  ok = _accumulated_directly(fn, found) or any(isinstance(st, ast.Assign) and norm_text(st.value) == 'losses[0]'
           for st in ast.walk(fn.node)) and any(
               isinstance(st, ast.AugAssign) and isinstance(st.op, ast.Add)
               and norm_text(st.value) == 'losses[1]'
               for st in ast.walk(fn.node))
  res.check(ok, 'L6', key + '|sum', fn.loc(),
            'result = l1 term + l2 term', 'the collected terms are not summed')


def _layer_forwarding(prog, res):
  """the regularizer classes of the lattice forward their own amounts."""
  for cls_name, lib in (('TorsionRegularizer', 'torsion_regularizer'),
                        ('LaplacianRegularizer', 'laplacian_regularizer')):
    cls = prog.cls('lattice_layer.' + cls_name)
    fn = cls.methods['__call__']
    res.analysed(fn)
    t = prog.function('%s.%s' % (LL, lib))
    calls = [c for c in ast.walk(fn.node) if isinstance(c, ast.Call)
             and prog.resolve_call(fn, c) is t]
    good = False
    if calls:
      args = [dotted(a) for a in calls[0].args] + [
          dotted(k.value) for k in calls[0].keywords]
      good = args == ['x', 'self.lattice_sizes', 'self.l1', 'self.l2']
    res.check(good, 'L6', 'lattice_layer.%s|forwarding' % cls_name, fn.loc(),
              '%s(x, lattice_sizes, l1, l2)' % lib,
              '%s.__call__ does not call %s(x, self.lattice_sizes, self.l1, '
              'self.l2)' % (cls_name, lib))


# ---------------------------------------------------------------------------
class _Op(object):
  """opaque tensor value; kind 'abs' / 'square' once reduced to a norm"""

  def __init__(self, kind=None, coef=1.0):
    self.kind, self.coef = kind, coef

  def _bin(self, o, op):
    if isinstance(o, (int, float)) and self.kind and op == '*':
      return _Op(self.kind, self.coef * o)
    return _Op()
  __add__ = __radd__ = __sub__ = __rsub__ = lambda s, o: s._bin(o, '+')
  __mul__ = __rmul__ = lambda s, o: s._bin(o, '*')
  __truediv__ = lambda s, o: s._bin(o, '/')
  __neg__ = lambda s: _Op()

  def __getitem__(self, k):
    return _Op()


class _Skip(Exception):
  pass


def _run_amounts(prog, fn, cfg):
  """Executes a lattice regularizer on concrete amounts / sizes / unit count
  with tensors opaque; returns [(kind, loop indices, coefficient)]."""
  import math
  env = {'lattice_sizes': list(cfg['sizes']), 'l1': cfg['l1'], 'l2': cfg['l2'],
         'weights': _Op(), 'math': math}
  terms = []
  units = cfg['units']

  def ev(e):
    if isinstance(e, ast.Constant):
      return e.value
    if isinstance(e, ast.IfExp):
      # amounts are concrete here: the test is decided
      return ev(e.body) if ev(e.test) else ev(e.orelse)
    if isinstance(e, ast.Name):
      if e.id in env:
        return env[e.id]
      if e.id in ('list', 'tuple', 'int', 'float', 'len', 'range'):
        return {'list': list, 'tuple': tuple, 'int': int, 'float': float,
                'len': len, 'range': range}[e.id]
      raise AnalysisError('%s: name %s in a regularizer prologue' % (
          fn.loc(e), e.id))
    if isinstance(e, ast.Attribute):
      t = norm_text(e)
      if t == 'weights.shape':
        return (None, units)
      if t.startswith('weights.'):
        return _Op()
      if t == 'math.sqrt':
        return math.sqrt
      return _Op()
    if isinstance(e, ast.Subscript):
      v = ev(e.value)
      if isinstance(e.slice, ast.Slice):
        if isinstance(v, _Op):
          return _Op()
        lo = ev(e.slice.lower) if e.slice.lower is not None else None
        hi = ev(e.slice.upper) if e.slice.upper is not None else None
        return v[lo:hi]
      if isinstance(e.slice, ast.Tuple):
        return _Op()
      k = ev(e.slice)
      if isinstance(v, _Op):
        return _Op()
      return v[k]
    if isinstance(e, (ast.List, ast.Tuple)):
      vals = [ev(x) for x in e.elts]
      return vals if isinstance(e, ast.List) else tuple(vals)
    if isinstance(e, ast.ListComp):
      return _Op()
    if isinstance(e, ast.UnaryOp):
      v = ev(e.operand)
      if isinstance(e.op, ast.Not):
        return not v
      if isinstance(e.op, ast.USub):
        return -v
    if isinstance(e, ast.BoolOp):
      r = None
      for x in e.values:
        r = ev(x)
        if isinstance(e.op, ast.And) and not r:
          return r
        if isinstance(e.op, ast.Or) and r:
          return r
      return r
    if isinstance(e, ast.Compare) and len(e.ops) == 1:
      a, b = ev(e.left), ev(e.comparators[0])
      op = e.ops[0]
      return {ast.Eq: lambda: a == b, ast.NotEq: lambda: a != b,
              ast.Lt: lambda: a < b, ast.LtE: lambda: a <= b,
              ast.Gt: lambda: a > b, ast.GtE: lambda: a >= b,
              ast.Is: lambda: a is b, ast.IsNot: lambda: a is not b}[
                  type(op)]()
    if isinstance(e, ast.BinOp):
      a, b = ev(e.left), ev(e.right)
      if isinstance(e.op, ast.Add):
        return a + b
      if isinstance(e.op, ast.Sub):
        return a - b
      if isinstance(e.op, ast.Mult):
        return a * b
      if isinstance(e.op, ast.Div):
        return a / b
    if isinstance(e, ast.Call):
      ext = prog.ext_name(fn.module, e.func) or ''
      if ext.startswith(('tf.', 'np.')):
        op = ext.split('.')[-1]
        args = [ev(a) for a in e.args]
        if op in ('abs', 'square'):
          return _Op(op)
        if op == 'reduce_sum' and args and isinstance(args[0], _Op):
          return _Op(args[0].kind)
        return _Op()
      f = dotted(e.func)
      if f == 'isinstance':
        v = ev(e.args[0])
        kinds = e.args[1].elts if isinstance(e.args[1], ast.Tuple) else [
            e.args[1]]
        return isinstance(v, tuple(ev(k) for k in kinds))
      fv = ev(e.func)
      if callable(fv):
        return fv(*[ev(a) for a in e.args])
    raise AnalysisError('%s: expression `%s` in a regularizer is outside the '
                        'evaluated subset' % (fn.loc(e), norm_text(e)[:50]))

  class _Ret(Exception):
    pass

  def ex(stmts, loopvars):
    for st in stmts:
      if isinstance(st, ast.Expr):
        continue
      if isinstance(st, ast.Assign):
        v = ev(st.value)
        t = st.targets[0]
        if isinstance(t, ast.Name):
          env[t.id] = v
        elif isinstance(t, ast.Tuple) and all(isinstance(x, ast.Name)
                                              for x in t.elts):
          if isinstance(v, (list, tuple)) and len(v) == len(t.elts):
            for x, y in zip(t.elts, v):
              env[x.id] = y
          else:
            for x in t.elts:
              env[x.id] = _Op()
        elif isinstance(t, ast.Subscript) or (
            isinstance(t, ast.Tuple) and all(isinstance(x, ast.Subscript)
                                             for x in t.elts)):
          pass                      # permut[0] = ... : index bookkeeping
        else:
          raise AnalysisError('%s: assignment target' % fn.loc(st))
        continue
      if isinstance(st, ast.AugAssign):
        v = ev(st.value)
        if isinstance(st.target, ast.Name):
          nm = st.target.id
          cur = env.get(nm)
          if nm == 'result' and isinstance(v, _Op):
            if not v.kind:
              raise AnalysisError('%s: a term that is not amount * norm is '
                                  'added to the result' % fn.loc(st))
            terms.append((v.kind, tuple(env[x] for x in loopvars), v.coef))
          elif isinstance(cur, (int, float)) and isinstance(v, (int, float)):
            env[nm] = cur + v if isinstance(st.op, ast.Add) else cur - v
          else:
            env[nm] = _Op()
        continue
      if isinstance(st, ast.If):
        ex(st.body if ev(st.test) else st.orelse, loopvars)
        continue
      if isinstance(st, ast.For):
        it = ev(st.iter)
        if not isinstance(st.target, ast.Name):
          raise AnalysisError('%s: loop target' % fn.loc(st))
        for k in it:
          env[st.target.id] = k
          try:
            ex(st.body, loopvars + [st.target.id])
          except _Skip:
            pass
        continue
      if isinstance(st, ast.Continue):
        raise _Skip()
      if isinstance(st, ast.Return):
        raise _Ret()
      raise AnalysisError('%s: statement %s' % (fn.loc(st),
                                                type(st).__name__))
  try:
    ex(fn.node.body, [])
  except _Ret:
    pass
  return terms


def _amount_semantics(prog, res):
  """L6a: amounts, skip guards and the zero-weighted units axis of the lattice
  regularizers, decided by evaluating the function (tensors opaque) on a grid
  of configurations - amounts absent / scalar / per-dimension list or tuple
  with zeros, units 1 and 2 - and comparing the multiset of
  (norm kind, dimension(s), coefficient) terms with the documented sums."""
  import math
  sizes = [3, 2, 4]
  amounts = [None, 0.5, [0.3, 0.0, 0.2], [0.0, 0.7, 0.0], (0.2, 0.4, 0.0)]

  def eff(a, d, torsion):
    if a is None or a == 0:
      return 0.0
    if isinstance(a, (list, tuple)):
      return float(a[d])
    return math.sqrt(a) if torsion else float(a)
  for name, torsion in (('laplacian_regularizer', False),
                        ('torsion_regularizer', True)):
    fn = prog.function('%s.%s' % (LL, name))
    res.analysed(fn)
    bad = None
    n = 0
    for units in (1, 2):
      for l1 in amounts:
        for l2 in amounts:
          cfg = dict(sizes=sizes, l1=l1, l2=l2, units=units)
          got = {}
          try:
            run_terms = _run_amounts(prog, fn, cfg)
          except TypeError as e:
            # the Python-level handling of the amounts itself fails, e.g.
            # tuple + list
            if bad is None:
              bad = (cfg, {'<raises>': str(e)}, {})
            n += 1
            continue
          for kind, idx, coef in run_terms:
            if abs(coef) > 1e-12:
              got[(kind, idx)] = got.get((kind, idx), 0.0) + coef
          want = {}
          for kind, a in (('abs', l1), ('square', l2)):
            if torsion:
              for i in range(len(sizes)):
                for j in range(i + 1, len(sizes)):
                  c = eff(a, i, True) * eff(a, j, True)
                  if c:
                    want[(kind, (i, j))] = c
            else:
              for d in range(len(sizes)):
                c = eff(a, d, False)
                if c:
                  want[(kind, (d,))] = c
          n += 1
          same = set(got) == set(want) and all(
              abs(got[k] - want[k]) < 1e-9 for k in want)
          if not same and bad is None:
            bad = (cfg, got, want)
    key = '%s.%s|amounts' % (LL, name)
    if bad is None:
      res.ok('L6', key, fn.loc(),
             'terms and coefficients match the documented sum on all %d '
             'configurations (amounts absent / scalar / per dimension with '
             'zeros, units 1 and 2)' % n)
    else:
      cfg, got, want = bad
      if '<raises>' in got:
        res.violation('L6', key, fn.loc(),
                      'for l1=%s, l2=%s, units=%d the handling of the amounts '
                      'raises TypeError: %s' % (cfg['l1'], cfg['l2'],
                                                cfg['units'], got['<raises>']))
        continue
      miss = sorted(set(want) - set(got))
      extra = sorted(set(got) - set(want))
      wrong = sorted(k for k in want if k in got and abs(got[k] - want[k])
                     > 1e-9)
      res.violation(
          'L6', key, fn.loc(),
          'for l1=%s, l2=%s, units=%d on lattice %s: %s%s%s' % (
              cfg['l1'], cfg['l2'], cfg['units'], sizes,
              'missing terms %s (a non-zero amount is skipped); ' % miss
              if miss else '',
              'extra terms %s (the units axis or a zero-amount dimension is '
              'penalised); ' % [(k, round(got[k], 4)) for k in extra]
              if extra else '',
              'wrong coefficients %s' % [(k, round(got[k], 4), round(
                  want[k], 4)) for k in wrong] if wrong else ''))


def _pwl_size_guards(prog, res):
  """L6b: the only kernels a PWL regularizer may give up on (return 0) are
  those the property excepts: fewer than three rows for wrinkle, none for
  Laplacian / Hessian.  A larger threshold silently drops the wrap-around
  differences of a small cyclic kernel."""
  for cls, allowed in (('LaplacianRegularizer', 0), ('HessianRegularizer', 0),
                       ('WrinkleRegularizer', 3)):
    fn = prog.function('%s.%s.__call__' % (PL, cls))
    res.analysed(fn)
    thr = 0
    for st in fn.node.body:
      if isinstance(st, ast.If) and any(isinstance(x, ast.Return)
                                        for x in st.body):
        for c in ast.walk(st.test):
          left = norm_text(c.left).replace(' ', '') if isinstance(
              c, ast.Compare) else ''
          # rows of the kernel, or segment heights x[1:] (one fewer)
          off = None
          if left == 'x.shape[0]':
            off = 0
          elif left.endswith('.shape[0]'):
            nm = left[:-len('.shape[0]')]
            for d in ast.walk(fn.node):
              if isinstance(d, ast.Assign) and len(d.targets) == 1 and \
                  dotted(d.targets[0]) == nm and norm_text(d.value).replace(
                      ' ', '') == 'x[1:]' and d.lineno <= st.lineno:
                off = 1
          if isinstance(c, ast.Compare) and len(c.ops) == 1 and \
              off is not None:
            k = const_value(c.comparators[0], None)
            if not isinstance(k, int):
              raise AnalysisError('%s: size guard `%s`' % (fn.loc(c),
                                                           norm_text(c)))
            k += off
            op = c.ops[0]
            if isinstance(op, ast.Lt):
              thr = max(thr, k)
            elif isinstance(op, ast.LtE):
              thr = max(thr, k + 1)
            elif isinstance(op, ast.Eq):
              thr = max(thr, k + 1)
            else:
              raise AnalysisError('%s: size guard `%s`' % (fn.loc(c),
                                                           norm_text(c)))
    res.check(thr <= allowed, 'L6', '%s.%s|size-guard' % (PL, cls), fn.loc(),
              'returns 0 only for kernels of fewer than %d rows' % max(
                  allowed, thr),
              '%s returns 0 for every kernel of fewer than %d rows, but only '
              'kernels of fewer than %d rows are excepted: a cyclic kernel of '
              '%d rows has non-zero wrap-around differences that are '
              'dropped' % (cls, thr, allowed, thr - 1))
