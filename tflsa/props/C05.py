"""C05 - calibration layers evaluate the function their weights describe:
structural clauses of the evaluation path (E1-E6), decided by structured
matching (wrong role / axis / constant => violation, unrecognised shape =>
exit 2)."""
import ast

from ..model import (AnalysisError, FunctionInfo, expand_aug, fold_ifexp, dotted, norm_text,
                     names_read, const_value, is_none)
from ..cfg import structural_guards, canon_guard
from ..rules import roles
from ..rules import shiftpoly
from ..rules.shiftpoly import SP
from ..rules import match

TECHNIQUE = ('structured matching of each construction step of the calibrator '
             'evaluation (orientation, clip constants, axes, pad / concat '
             'order, complementary imputation weights), slice algebra for '
             'keypoint gaps, sibling agreement between call() and '
             'keypoints_inputs()')
EXPLANATION = (
    'Static analysis of necessary structural conditions of C05; that the '
    'output equals the piecewise-linear interpolant at every real input is a '
    'numeric identity and is NOT decided. Decided: interpolation weights are '
    '(x - keypoint) / length clipped to [0, 1] with a leading 1 for the bias '
    '(E1); fixed keypoints use all but the last keypoint and first '
    'differences as lengths, learned ones softmax * range with an exclusive '
    'cumulative sum plus the first keypoint, identically in call() and '
    'keypoints_inputs() (E2); the cyclic closing height is minus the sum of '
    'the heights, appended last (E3); the contraction pairs weights with the '
    '(extended) kernel over the keypoint axis (E4); missing inputs are '
    'imputed with complementary weights is_missing / (1 - is_missing) and the '
    'learned missing output is created only when no fixed one is given, and '
    'in each input form (single tensor, [inputs, is_missing]) the result '
    'depends on every configured source of missingness - the flag tensor '
    'and the comparison with missing_input_value (E5); '
    'keypoints_outputs() is the cumulative sum of the kernel rows with the '
    'first output repeated when cyclic (E3); categorical inputs equal to '
    'default_input_value are mapped to the last bucket and looked up by a '
    'one-hot of depth num_buckets over the bucket axis (E6).'
    ' Also decided: in each input form the output depends on every configured source of missingness (flag tensor, comparison with missing_input_value) (E5, influence analysis); the learned closing keypoint is keypoint_min + sum of the lengths; constants built in the evaluation take the operand dtype (D1); numeric options are not truth-tested (N0); a vector replicated into the initial value of a [units, pieces] variable is replicated row-wise (E7).')
ASSUMPTIONS = ['tf.minimum/maximum/concat/cumsum/one_hot/where semantics',
               'kernel layout (keypoints or buckets, units)']

PL = 'pwl_calibration_layer.PWLCalibration'


class _Unrecognised(Exception):
  pass


def run(prog, res):
  from ..rules import numeric_opts as _no
  _no.check(prog, res, [prog.function(q) for q in (
      'pwl_calibration_layer.PWLCalibration.call',
      'pwl_calibration_layer.PWLCalibration.build',
      'categorical_calibration_layer.CategoricalCalibration.call',
      'categorical_calibration_layer.CategoricalCalibration.build',
      'pwl_calibration_lib.compute_interpolation_weights')])
  res.floor('N0', 5)
  from ..rules import dtypes, validate
  dtypes.selfcheck()
  _cl = validate.call_closure(prog, [prog.function(q) for q in ('pwl_calibration_layer.PWLCalibration.call', 'categorical_calibration_layer.CategoricalCalibration.call')],
                              follow_init=False)
  dtypes.check_functions(prog, res, [f for _, f in sorted(_cl.items())])
  res.floor('D1', 5)
  steps = [
      ('E1', 'pwl_calibration_lib.compute_interpolation_weights', _weights),
      ('E2', PL + '.build', _fixed_keypoints),
      ('E2', PL + '.call', _learned_keypoints),
      ('E3', PL + '.call', _cyclic),
      ('E4', PL + '.call', _contraction),
      ('E5', PL + '.call', _missing),
      ('E5', PL + '.build', _missing_variable),
      ('E3', PL + '.keypoints_outputs', _keypoints_outputs),
      ('E2', PL + '.keypoints_inputs', _keypoints_inputs),
      ('E6', 'categorical_calibration_layer.CategoricalCalibration.call',
       _categorical),
      ('E4', PL + '.call', _split),
  ]
  for rule, q, f in steps:
    fn = prog.function(q)
    res.analysed(fn)
    try:
      items = f(prog, fn)
    except _Unrecognised as e:
      raise AnalysisError('%s: step has an unrecognised shape (%s)' % (q, e))
    for key, ok_text, probs in items:
      res.check(not probs, rule, '%s|%s' % (q, key), fn.loc(), ok_text,
                '; '.join(probs))
  res.floor('E1', 3)
  res.floor('E2', 7)
  res.floor('E3', 2)
  res.floor('E4', 2)
  _missing_sources(prog, res)
  res.floor('E5', 5)
  _replication_layout(prog, res)
  res.floor('E7', 1)
  res.floor('E6', 4)


def _replication_layout(prog, res):
  """E7: a vector v replicated into the flat initial value of a rank-2
  variable of shape [A, B] (row-major) must be replicated the way the shape
  says: np.tile(v, A) puts one copy of v in every ROW (len(v) == B),
  np.repeat(v, B) puts v[i] B times into row i (len(v) == A).  The other
  pairing has the right number of elements and scrambles them (invisible for
  one unit or for a constant v)."""
  from ..model import straightline_value
  fn = prog.function(PL + '.build')
  n = 0
  for call in ast.walk(fn.node):
    if not (isinstance(call, ast.Call) and isinstance(
        call.func, ast.Attribute) and call.func.attr == 'add_weight'):
      continue
    kw = {k.arg: k.value for k in call.keywords}
    shp, ini = kw.get('shape'), kw.get('initializer')
    if not (isinstance(shp, (ast.List, ast.Tuple)) and len(shp.elts) == 2 and
            isinstance(ini, ast.Call) and (prog.ext_name(
                fn.module, ini.func) or '').endswith('constant_initializer')
            and ini.args):
      continue
    v = ini.args[0]
    # the value by definition (locals of the enclosing block included)
    hops = 0
    while isinstance(v, ast.Name) and hops < 4:
      d = [st for st in ast.walk(fn.node) if isinstance(st, ast.Assign) and
           len(st.targets) == 1 and dotted(st.targets[0]) == v.id and
           (st.lineno, st.col_offset) < (call.lineno, call.col_offset)]
      if not d:
        break
      v = max(d, key=lambda st: (st.lineno, st.col_offset)).value
      hops += 1
    if not isinstance(v, ast.Call):
      continue
    ext = prog.ext_name(fn.module, v.func) or ''
    if ext not in ('np.tile', 'np.repeat') or len(v.args) < 2:
      continue
    n += 1
    k = norm_text(v.args[1]).replace(' ', '')
    a, b = [norm_text(e).replace(' ', '') for e in shp.elts]
    ok = (ext == 'np.tile' and k == a) or (ext == 'np.repeat' and k == b)
    res.check(ok, 'E7', '%s|replication:%s' % (
        fn.qualname, norm_text(kw.get('name') or call.args[0])[:30]
        if (kw.get('name') is not None or call.args) else '?'), fn.loc(v),
              '%s(v, %s) fills the [%s, %s] variable row by row' % (
                  ext, k, a, b),
              'the initial value of a [%s, %s] variable is %s(v, %s): '
              'np.tile(v, %s) copies v into every row, np.repeat(v, %s) '
              'repeats each element along a row - this pairing scrambles '
              'the per-unit rows' % (a, b, ext, k, a, b))
  if not n:
    raise AnalysisError('PWLCalibration.build: no replicated initial value '
                        'found (learned interior keypoints)')


def _bad(node, what, *expected):
  """[] when node is one of the expected forms; [problem] when only a
  constant / name / operand order differs; _Unrecognised otherwise."""
  r = match.form(node, *expected)
  if r == 'ok':
    return []
  if r == 'slot':
    return ['%s is `%s`, expected `%s`' % (what, norm_text(node)[:80],
                                           expected[0])]
  raise _Unrecognised('%s: `%s`' % (what, norm_text(node)[:70]
                                    if node is not None else '<missing>'))


def _defs(fn):
  d = {}
  def visit(n):
    for st in ast.iter_child_nodes(n):
      if isinstance(st, ast.stmt):
        st2 = expand_aug(st)
        if isinstance(st2, ast.Assign):
          for t in st2.targets:
            nm = dotted(t)
            if nm:
              d.setdefault(nm, []).append(st2)
          if st2 is not st:
            continue
      visit(st)
  visit(fn.node)
  return d


def _ext(prog, fn, c):
  return prog.ext_name(fn.module, c.func) if isinstance(c, ast.Call) else None


def _kw(c):
  return {k.arg: k.value for k in c.keywords}


def _arg(c, i, name):
  kw = _kw(c)
  if name in kw:
    return kw[name]
  return c.args[i] if len(c.args) > i else None


# ---------------------------------------------------------------------------
def _weights(prog, fn):
  probs = []
  div = None
  lo = hi = None
  for n in ast.walk(fn.node):
    if isinstance(n, ast.BinOp) and isinstance(n.op, ast.Div):
      div = n
    if isinstance(n, ast.Call):
      e = _ext(prog, fn, n)
      if e in ('tf.minimum', 'tf.math.minimum') and dotted(n.args[0]) == \
          'weights':
        hi = const_value(n.args[1])
      if e in ('tf.maximum', 'tf.math.maximum') and dotted(n.args[0]) == \
          'weights':
        lo = const_value(n.args[1])
      if e == 'tf.clip_by_value' and dotted(n.args[0]) == 'weights':
        lo = const_value(_arg(n, 1, 'clip_value_min'))
        hi = const_value(_arg(n, 2, 'clip_value_max'))
      if e and e.endswith('divide_no_nan'):
        probs.append('divide_no_nan gives weight 0 (not 1) to the right of a '
                     'zero-length piece')
  if div is None and not probs:
    raise _Unrecognised('(inputs - keypoints) / lengths')
  if div is not None:
    n = div.left
    if not (isinstance(n, ast.BinOp) and isinstance(n.op, ast.Sub)
            and dotted(n.left) == 'inputs' and dotted(n.right) == 'keypoints'
            and dotted(div.right) == 'lengths'):
      probs.append('weights are %s, expected (inputs - keypoints) / lengths' %
                   norm_text(div))
  items = [('ratio', 'weights = (inputs - keypoints) / lengths', probs)]
  p2 = []
  if lo != 0.0:
    p2.append('weights are bounded below by %s instead of 0.0 (tf.maximum('
              'weights, 0.0)): inputs left of a keypoint extrapolate' % lo)
  if hi != 1.0:
    p2.append('weights are bounded above by %s instead of 1.0 (tf.minimum('
              'weights, 1.0)): inputs right of a piece extrapolate' % hi)
  items.append(('clip', 'weights clipped to [0, 1]', p2))
  p3 = []
  rets = [r for r in ast.walk(fn.node) if isinstance(r, ast.Return)]
  if not rets:
    raise _Unrecognised('return')
  for r in rets:
    c = r.value
    if _ext(prog, fn, c) != 'tf.concat' or not isinstance(c.args[0],
                                                         ast.List):
      raise _Unrecognised(norm_text(c)[:40])
    first, second = c.args[0].elts
    fe = _ext(prog, fn, first)
    if fe not in ('tf.ones_like', 'tf.ones') or dotted(second) != 'weights':
      p3.append('returned weights are %s, expected [ones, weights]' %
                norm_text(c.args[0])[:60])
    if const_value(_arg(c, 1, 'axis')) != -1:
      p3.append('bias weight is concatenated along axis %s, not the keypoint '
                'axis -1' % norm_text(_arg(c, 1, 'axis')))
  items.append(('leading-one', 'leading weight 1 for the bias row', p3))
  return items


def _fixed_keypoints(prog, fn):
  d = _defs(fn)
  probs = []
  kp = d.get('self._interpolation_keypoints')
  ln = d.get('self._lengths')
  if not kp or not ln:
    raise _Unrecognised('fixed keypoint constants')
  v = _arg(kp[0].value, 0, 'value')
  try:
    p = shiftpoly.eval_seq(v, {'input_keypoints': SP.base()})
    if p.t != {(0, 0): 1} or p.trims != (1, 0):
      probs.append('interpolation keypoints are %s, expected '
                   'input_keypoints[:-1]' % norm_text(v))
  except AnalysisError:
    raise _Unrecognised(norm_text(v)[:40])
  v = _arg(ln[0].value, 0, 'value')
  try:
    p = shiftpoly.eval_seq(v, {'input_keypoints': SP.base()})
    if p.normalised() != shiftpoly.diff_power(1) or p.trims != (1, 0):
      probs.append('lengths are %s, expected the first differences '
                   'input_keypoints[1:] - input_keypoints[:-1]' %
                   norm_text(v))
  except AnalysisError:
    raise _Unrecognised(norm_text(v)[:40])
  items = [('fixed', 'fixed keypoints: all but the last, lengths = first '
            'differences', probs)]
  p2 = []
  kmin = d.get('self._keypoint_min')
  krng = d.get('self._keypoint_range')
  if not kmin or not krng:
    raise _Unrecognised('learned keypoint range')
  p2 += _bad(kmin[0].value, '_keypoint_min', 'input_keypoints[0]')
  p2 += _bad(krng[0].value, '_keypoint_range',
             'input_keypoints[-1] - input_keypoints[0]')
  items.append(('learned-range', 'learned keypoints span [first, last]', p2))
  p3 = []
  nw = d.get('num_weights')
  if not nw:
    raise _Unrecognised('num_weights')
  p3 += _bad(nw[0].value, 'number of kernel rows',
             'input_keypoints.size - self.is_cyclic')
  items.append(('rows', 'one kernel row per keypoint (minus the closing one '
                'when cyclic)', p3))
  return items


def _softmax_range_cumsum(prog, fn, lengths_expr, kp_expr, lengths_name):
  probs = []
  e = lengths_expr
  if _ext(prog, fn, e) in ('tf.multiply',):
    sm, rg = e.args[0], e.args[1]
  elif isinstance(e, ast.BinOp) and isinstance(e.op, ast.Mult):
    sm, rg = e.left, e.right
  else:
    raise _Unrecognised(norm_text(e)[:50])
  if _ext(prog, fn, sm) != 'tf.nn.softmax':
    sm, rg = rg, sm
  if _ext(prog, fn, sm) != 'tf.nn.softmax':
    raise _Unrecognised(norm_text(e)[:50])
  ax = const_value(_arg(sm, 1, 'axis'), -1)
  if ax not in (1, -1):
    probs.append('softmax over axis %s, not over the keypoint axis of the '
                 '(units, keypoints-1) logits' % ax)
  if dotted(sm.args[0]) != 'self.interpolation_logits':
    probs.append('softmax of %s' % norm_text(sm.args[0]))
  if dotted(rg) != 'self._keypoint_range':
    probs.append('gaps are scaled by %s, expected self._keypoint_range' %
                 norm_text(rg))
  k = kp_expr
  if _ext(prog, fn, k) == 'tf.add':
    cs, off = k.args[0], k.args[1]
  elif isinstance(k, ast.BinOp) and isinstance(k.op, ast.Add):
    cs, off = k.left, k.right
  else:
    raise _Unrecognised(norm_text(k)[:50])
  if _ext(prog, fn, cs) != 'tf.cumsum':
    cs, off = off, cs
  if _ext(prog, fn, cs) != 'tf.cumsum':
    raise _Unrecognised(norm_text(k)[:50])
  if const_value(_kw(cs).get('exclusive'), False) is not True:
    probs.append('cumsum is not exclusive: the first keypoint is not the '
                 'first input keypoint')
  if const_value(_arg(cs, 1, 'axis'), 0) not in (1, -1):
    probs.append('cumsum over axis %s' % const_value(_arg(cs, 1, 'axis'), 0))
  if dotted(cs.args[0]) != lengths_name:
    probs.append('cumsum of %s, expected the gaps %s' % (
        norm_text(cs.args[0]), lengths_name))
  if dotted(off) != 'self._keypoint_min':
    probs.append('offset %s, expected self._keypoint_min' % norm_text(off))
  return probs


def _learned_keypoints(prog, fn):
  d = _defs(fn)
  ln = d.get('self._lengths')
  kp = d.get('self._interpolation_keypoints')
  if not ln or not kp:
    raise _Unrecognised('learned keypoints in call')
  probs = _softmax_range_cumsum(prog, fn, ln[0].value, kp[0].value,
                                'self._lengths')
  gs = structural_guards(fn.node, ln[0]) or []
  if not any("'learned_interior'" in norm_text(t) and p for t, p in gs):
    probs.append('learned keypoints are not computed under '
                 "input_keypoints_type == 'learned_interior'")
  wc = [c for c in ast.walk(fn.node) if isinstance(c, ast.Call)
        and getattr(prog.resolve_call(fn, c), 'name', '') ==
        'compute_interpolation_weights']
  if len(wc) != 1:
    raise _Unrecognised('compute_interpolation_weights call')
  args = [dotted(a) for a in wc[0].args]
  if args[1:] != ['self._interpolation_keypoints', 'self._lengths']:
    probs.append('weights are computed against %s, expected '
                 '(_interpolation_keypoints, _lengths)' % args[1:])
  return [('learned', 'learned keypoints: softmax * range, exclusive cumsum '
           '+ first keypoint; weights use (keypoints, lengths)', probs)]


def _cyclic(prog, fn):
  d = _defs(fn)
  bh = d.get('bias_and_heights')
  if not bh:
    raise _Unrecognised('bias_and_heights')
  probs = []
  cyc = [s for s in bh if _ext(prog, fn, s.value) == 'tf.concat']
  plain = [s for s in bh if dotted(s.value) == 'self.kernel']
  if not cyc or not plain:
    raise _Unrecognised('cyclic / plain kernel')
  c = cyc[0].value
  parts = c.args[0].elts if isinstance(c.args[0], ast.List) else []
  if len(parts) != 2 or dotted(parts[0]) != 'self.kernel':
    probs.append('cyclic kernel is %s, expected [kernel, closing height]' %
                 norm_text(c.args[0])[:60])
  else:
    probs += _bad(parts[1], 'closing height',
                  '-tf.reduce_sum(self.kernel[1:], axis=0, keepdims=True)')
  if const_value(_arg(c, 1, 'axis')) != 0:
    probs.append('closing height appended along axis %s' % norm_text(
        _arg(c, 1, 'axis')))
  gs = structural_guards(fn.node, cyc[0]) or []
  if not any(dotted(t) == 'self.is_cyclic' and p for t, p in gs):
    probs.append('closing height is not added under `if self.is_cyclic`')
  return [('closing-height', 'cyclic: kernel + [-sum(heights)]', probs)]


def _contraction(prog, fn):
  d = _defs(fn)
  rs = d.get('result')
  if not rs:
    raise _Unrecognised('result')
  probs = []
  seen = set()
  for s in rs:
    v = s.value
    e = _ext(prog, fn, v)
    if e in ('tf.matmul', 'tf.linalg.matmul'):
      seen.add('matmul')
      if [dotted(a) for a in v.args[:2]] != ['interpolation_weights',
                                            'bias_and_heights'] or any(
          const_value(x, False) for x in _kw(v).values()):
        probs.append('single-column contraction is %s, expected matmul('
                     'interpolation_weights, bias_and_heights)' %
                     norm_text(v)[:60])
    elif e == 'tf.reduce_sum':
      seen.add('reduce')
      prod = v.args[0]
      ok = isinstance(prod, ast.BinOp) and isinstance(prod.op, ast.Mult)
      if ok:
        sides = [prod.left, prod.right]
        ok = any(dotted(x) == 'interpolation_weights' for x in sides) and any(
            _ext(prog, fn, x) == 'tf.transpose' and dotted(x.args[0]) ==
            'bias_and_heights' and len(x.args) == 1 for x in sides)
      if not ok or const_value(_arg(v, 1, 'axis')) != -1:
        probs.append('per-unit contraction is %s, expected reduce_sum('
                     'interpolation_weights * transpose(bias_and_heights), '
                     'axis=-1)' % norm_text(v)[:70])
  if seen != {'matmul', 'reduce'}:
    raise _Unrecognised('contractions found: %s' % sorted(seen))
  return [('contraction', 'output = weights . [bias; heights] over the '
           'keypoint axis', probs)]


def _missing(prog, fn):
  probs = []
  target = None
  for st in ast.walk(fn.node):
    if isinstance(st, ast.Assign) and dotted(st.targets[0]) == 'result' and \
        'self.missing_output' in names_read(st.value):
      target = st
  if target is None:
    return [('imputation', '', ['missing inputs are no longer replaced by '
                                'self.missing_output'])]
  v = target.value
  if not (isinstance(v, ast.BinOp) and isinstance(v.op, ast.Add)):
    raise _Unrecognised(norm_text(v)[:50])
  probs += _bad(v, 'imputation',
                'is_missing * self.missing_output + (1.0 - is_missing) * '
                'result',
                '(1.0 - is_missing) * result + is_missing * '
                'self.missing_output')
  gs = structural_guards(fn.node, target) or []
  if not any(dotted(t) == 'self.impute_missing' and p for t, p in gs):
    probs.append('imputation is not under `if self.impute_missing`')
  # the value test compares the raw inputs with the configured value (that it
  # reaches the result in every input form is the missing-sources clause)
  eqs = [c for c in ast.walk(fn.node) if isinstance(c, ast.Call) and
         _ext(prog, fn, c) == 'tf.equal' and
         'self._missing_input_value_tensor' in [dotted(a) for a in c.args]]
  if not eqs:
    probs.append('no tf.equal(inputs, missing input value) test is left')
  for c in eqs:
    if sorted(dotted(a) or '?' for a in c.args) != [
        'inputs', 'self._missing_input_value_tensor']:
      probs.append('the missing value is compared with `%s`, not with the '
                   'raw inputs' % norm_text(c)[:60])
  return [('imputation', 'missing inputs -> missing_output, others keep the '
           'calibrated value', probs)]


def _missing_variable(prog, fn):
  d = _defs(fn)
  mo = d.get('self.missing_output')
  if not mo or len(mo) != 2:
    raise _Unrecognised('missing_output definitions')
  probs = []
  fixed = [s for s in mo if _ext(prog, fn, s.value) == 'tf.constant']
  learned = [s for s in mo if isinstance(s.value, ast.Call) and isinstance(
      s.value.func, ast.Attribute) and s.value.func.attr == 'add_weight']
  if len(fixed) != 1 or len(learned) != 1:
    raise _Unrecognised('fixed / learned missing output')
  if dotted(_arg(fixed[0].value, 0, 'value')) != 'self.missing_output_value':
    probs.append('fixed missing output is %s' % norm_text(fixed[0].value)[:50])
  gf = structural_guards(fn.node, fixed[0]) or []
  gl = structural_guards(fn.node, learned[0]) or []
  tf_ = [canon_guard(t, p) for t, p in gf]
  tl = [canon_guard(t, p) for t, p in gl]
  if ('self.missing_output_value is None', False) not in tf_ or \
      ('self.missing_output_value is None', True) not in tl:
    probs.append('the fixed missing output must be used exactly when '
                 'missing_output_value is given (guards: fixed %s, learned '
                 '%s)' % (tf_, tl))
  if ('self.impute_missing', True) not in tf_:
    probs.append('missing output is created without `if self.impute_missing`')
  return [('missing-output', 'fixed missing output iff missing_output_value '
           'is given, else a learned variable', probs)]


def _keypoints_outputs(prog, fn):
  d = _defs(fn)
  ko = d.get('kp_outputs')
  if not ko:
    raise _Unrecognised('kp_outputs')
  probs = []
  first = ko[0].value
  if _ext(prog, fn, first) != 'tf.cumsum' or dotted(first.args[0]) != \
      'self.kernel' or const_value(_arg(first, 1, 'axis'), 0) != 0 or \
      const_value(_kw(first).get('exclusive'), False) or const_value(
          _kw(first).get('reverse'), False):
    probs.append('keypoint outputs are %s, expected the cumulative sum of '
                 'the kernel rows (axis 0)' % norm_text(first)[:50])
  cyc = [s for s in ko[1:] if _ext(prog, fn, s.value) == 'tf.concat']
  if not cyc:
    probs.append('cyclic: first output is not repeated at the end')
  else:
    probs += _bad(cyc[0].value, 'cyclic keypoint outputs',
                  'tf.concat([kp_outputs, kp_outputs[:1]], axis=0)')
    gs = structural_guards(fn.node, cyc[0]) or []
    if not any(dotted(t) == 'self.is_cyclic' and p for t, p in gs):
      probs.append('the repeated output is not under `if self.is_cyclic`')
  rets = [r for r in ast.walk(fn.node) if isinstance(r, ast.Return)]
  if not rets or dotted(rets[-1].value) != 'kp_outputs':
    probs.append('keypoints_outputs does not return kp_outputs')
  return [('cumsum', 'keypoint outputs = cumsum(kernel), first output '
           'repeated when cyclic', probs)]


def _keypoints_inputs(prog, fn):
  d = _defs(fn)
  ln = d.get('lengths')
  kp = d.get('interpolation_keypoints')
  if not ln or not kp:
    raise _Unrecognised('learned branch of keypoints_inputs')
  probs = _softmax_range_cumsum(prog, fn, ln[0].value, kp[0].value, 'lengths')
  items = [('learned-agrees-with-call', 'keypoints_inputs() derives learned '
            'keypoints exactly like call()', probs)]
  p2 = []
  ak = d.get('all_keypoints', [])
  fixed = [s for s in ak if 'self._interpolation_keypoints' in names_read(
      s.value)]
  if not fixed:
    raise _Unrecognised('fixed branch of keypoints_inputs')
  p2 += _bad(fixed[0].value, 'fixed keypoints',
             'tf.concat([self._interpolation_keypoints, '
             'self._interpolation_keypoints[-1:] + self._lengths[-1:]], '
             'axis=0)')
  items.append(('fixed-last', 'last keypoint = last interpolation keypoint + '
                'last length', p2))
  # learned branch: the closing keypoint is keypoint_min + sum(lengths), either
  # as last interpolation keypoint + last length or as min + reduce_sum
  learned = [s for s in ak if 'interpolation_keypoints' in names_read(s.value)
             and 'self._interpolation_keypoints' not in names_read(s.value)]
  if not learned:
    raise _Unrecognised('learned branch of all_keypoints')
  v = learned[0].value
  if not (_ext(prog, fn, v) == 'tf.concat' and isinstance(
      v.args[0], (ast.List, ast.Tuple)) and len(v.args[0].elts) == 2):
    raise _Unrecognised('learned all_keypoints: %s' % norm_text(v)[:50])
  last = v.args[0].elts[1]
  reads = names_read(last)
  p3 = []
  sums = [c for c in ast.walk(last) if _ext(prog, fn, c) == 'tf.reduce_sum'
          and c.args and dotted(c.args[0]) == 'lengths']
  if sums:
    if 'self._keypoint_min' not in reads:
      p3.append('the closing keypoint is `%s`: the sum of the lengths without '
                'the first keypoint (self._keypoint_min), so the reported '
                'last keypoint is off by the left end of the range' %
                norm_text(last)[:60])
  elif 'interpolation_keypoints' in reads and 'lengths' in reads:
    p3 += _bad(last, 'learned closing keypoint',
               'interpolation_keypoints[:, -1:] + lengths[:, -1:]',
               'lengths[:, -1:] + interpolation_keypoints[:, -1:]')
  else:
    raise _Unrecognised('learned closing keypoint: %s' % norm_text(last)[:50])
  items.append(('learned-last', 'learned closing keypoint = keypoint_min + '
                'sum of the lengths', p3))
  return items


def _split(prog, fn):
  probs = []
  sp = [c for c in ast.walk(fn.node) if _ext(prog, fn, c) == 'tf.split']
  if not sp:
    return [('split', '', ['split_outputs is ignored: no tf.split'])]
  c = sp[0]
  if dotted(c.args[0]) != 'result' or dotted(_arg(c, 1,
                                                  'num_or_size_splits')) != \
      'self.units' or const_value(_arg(c, 2, 'axis')) != 1:
    probs.append('outputs are split as %s, expected tf.split(result, '
                 'self.units, axis=1)' % norm_text(c)[:60])
  return [('split', 'per-unit outputs split along axis 1', probs)]


def _categorical(prog, fn):
  d = _defs(fn)
  items = []
  probs = []
  rep = d.get('replacement')
  if not rep:
    raise _Unrecognised('replacement')
  probs += _bad(rep[0].value, 'replacement for default inputs',
                'tf.zeros_like(inputs) + (self.num_buckets - 1)',
                'tf.zeros_like(inputs) + self.num_buckets - 1')
  wh = [c for c in ast.walk(fn.node) if _ext(prog, fn, c) == 'tf.where']
  if not wh:
    probs.append('default inputs are not replaced (no tf.where)')
  else:
    w = wh[0]
    cond = w.args[0]
    if not (_ext(prog, fn, cond) == 'tf.equal' and {
        dotted(a) for a in cond.args} == {'inputs',
                                          'default_input_value_tensor'}):
      probs.append('replacement condition is %s' % norm_text(cond)[:50])
    if [dotted(a) for a in w.args[1:3]] != ['replacement', 'inputs']:
      probs.append('tf.where branches are %s, expected (replacement, '
                   'inputs)' % [norm_text(a) for a in w.args[1:3]])
  items.append(('default-bucket', 'default_input_value -> last bucket',
                probs))
  # the category id is the input itself: the conversion to an integer index
  # casts `inputs`, with no arithmetic on it (tf.cast truncates toward zero,
  # so `inputs + 0.5` turns the category -1 into 0)
  pc = []
  for c in ast.walk(fn.node):
    if _ext(prog, fn, c) == 'tf.cast' and c.args and 'inputs' in names_read(
        c.args[0]) and dotted(c.args[0]) != 'inputs':
      pc.append('the category index is tf.cast(%s, ...): arithmetic on the '
                'category id before the truncating cast' % norm_text(
                    c.args[0])[:40])
  items.append(('index-cast', 'the integer index is the cast input itself',
                pc))
  p2 = []
  oh = [c for c in ast.walk(fn.node) if _ext(prog, fn, c) == 'tf.one_hot']
  if len(oh) != 2:
    raise _Unrecognised('one_hot calls')
  for c in oh:
    if dotted(_kw(c).get('depth')) != 'self.num_buckets':
      p2.append('one_hot depth is %s, expected self.num_buckets' % norm_text(
          _kw(c).get('depth')))
  items.append(('depth', 'one-hot over num_buckets buckets', p2))
  p3 = []
  mm = [c for c in ast.walk(fn.node) if _ext(prog, fn, c) == 'tf.matmul']
  if not mm or dotted(mm[0].args[1]) != 'self.kernel' or _ext(
      prog, fn, mm[0].args[0]) != 'tf.one_hot':
    p3.append('single-unit lookup is not matmul(one_hot(inputs), kernel)')
  items.append(('single-unit', 'row i of the kernel for category i', p3))
  p4 = []
  rs = [c for c in ast.walk(fn.node) if _ext(prog, fn, c) == 'tf.reduce_sum']
  ok = False
  for c in rs:
    prod = c.args[0]
    if isinstance(prod, ast.BinOp) and isinstance(prod.op, ast.Mult) and \
        _ext(prog, fn, prod.left) == 'tf.one_hot' and dotted(prod.right) == \
        'self.kernel':
      oh_ax = const_value(_kw(prod.left).get('axis'))
      ok = oh_ax == 1 and const_value(_arg(c, 1, 'axis')) == 1
  if not ok:
    p4.append('multi-unit lookup must be reduce_sum(one_hot(inputs, axis=1, '
              'depth) * kernel, axis=1): the one-hot axis and the reduced '
              'axis are both the bucket axis 1')
  items.append(('multi-unit', 'per-unit lookup over the bucket axis', p4))
  return items


def _missing_sources(prog, res):
  """E5 (sources): "inputs flagged missing OR equal to missing_input_value"
  - in every accepted input form the returned value must depend on each
  configured source.  Decided by the must-depend influence analysis of
  rules/influence.py on PWLCalibration.call (undecided validation raises
  are not taken, other undecided tests meet both branches)."""
  from ..rules import influence as inf
  fn = prog.function(PL + '.call')
  res.analysed(fn)
  forms = {
      'tensor': lambda: inf.V(inf.TENSOR, ()),
      'pair': lambda: inf.V([inf.V(inf.TENSOR, ()),
                             inf.V(inf.TENSOR, {'is_missing'})], ()),
  }
  for form, mk in sorted(forms.items()):
    for value_given in (True, False):
      if form == 'tensor' and not value_given:
        continue        # rejected by call(): nothing to impute from
      env = {
          'self': inf.V(inf.UNK),
          'inputs': mk(),
          'self.impute_missing': inf.V(True),
          'self.missing_input_value':
              inf.V(inf.GIVEN, {'missing_input_value'}) if value_given
              else inf.V(None),
          'self._missing_input_value_tensor':
              inf.V(inf.GIVEN, {'missing_input_value'}) if value_given
              else inf.V(None),
      }
      it = inf.Interp(prog, strict=False)
      out = it.run(fn, env)
      out = inf._join(out)
      need = set()
      if form == 'pair':
        need.add('is_missing')
      if value_given:
        need.add('missing_input_value')
      key = '%s|missing-sources|%s,missing_input_value=%s' % (
          fn.qualname, form, 'set' if value_given else 'None')
      lack = sorted(need - set(out.infl))
      res.check(not lack, 'E5', key, fn.loc(),
                'the output depends on %s' % ', '.join(sorted(need)),
                'with inputs given as %s and missing_input_value %s the '
                'output does not depend on %s: inputs %s are not replaced by '
                'the missing output' % (
                    'one tensor' if form == 'tensor' else
                    '[inputs, is_missing]',
                    'configured' if value_given else 'None',
                    ' / '.join(lack),
                    'equal to missing_input_value but not flagged'
                    if 'missing_input_value' in lack else 'flagged missing'))
