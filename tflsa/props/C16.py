"""C16 - configurations are rejected up front or handled totally
(V1 V1s V2 V3 V5 V6 V7)."""
import ast

from ..model import (AnalysisError, FunctionInfo, ClassInfo, dotted, norm_text,
                     names_read, call_args)
from ..cfg import structural_guards, CFG
from ..rules import validate
from ..rules import api
from ..rules import numeric_opts

TECHNIQUE = ('call-graph and dataflow lint: validator coverage (belief and '
             'sibling forms), dispatch totality against validated literal sets, '
             'guarded-probe rule, reviewed table of raise sites reachable from '
             'projections, installed-API signature conformance')
EXPLANATION = (
    'Static analysis of necessary conditions of C16, not of finiteness of '
    'outputs: (V1) every class that validates through its library validator '
    'passes every constructor parameter the validator accepts, on the '
    'construct/build path, and premade models verify their config before '
    'building; (V1s) classes behind the same literal dispatch validate the same '
    'shared parameters; (V2) every string/enum dispatch ends in raise or '
    'covers the literal set a validator accepted; (V3) raw comparisons treat '
    'both spellings of each synonym class alike; (V5) NumPy - and in the '
    'thorough tier TensorFlow/Keras - calls are accepted by the installed '
    'signatures; (V6) first-element probes of constructor arguments are '
    'guarded against empty values; (V7) every raise reachable from a weight '
    'projection is a reviewed shape check, a validator that also runs at '
    'construction, an internal invariant whose caller guard is re-checked, or '
    'is pre-validated at construction. Floating-point finiteness is NOT '
    'decided.'
    ' Also decided, over all functions: numeric options and `x and x < c` range guards are not truth-tested (N0); possibly omitted hyper-parameters are only subscripted under a guard (N1); list-or-tuple parameters are lists before list concatenation (T3) and tuples before use as keys (T4); format strings get as many arguments as specifiers, tuple-valued operands included (F0); literals validated through .lower() are never compared raw (V3c); lattice pair constraints reject (d, d) (V9); divisions by data reductions are guarded or reviewed (D3); no loop variable is read after its loop (X6); constructor parameters are validated in every configuration, not only when other options create a constraint object (V1, guard-aware).'
    ' Adjacent statements of identical shape vary consistently in their identifiers and role words (CP1, copy-paste slips).'
    ' Containers that collect what a validator has seen are created once, at the scope the reference gives them (S14), and what is evaluated for every element of an iteration reads the element (X9).'
    ' A parameter that a constructor wraps into a list is not handed to a call before the wrap (X10); verify_config reaches, for every (config class, parameterization), the sub-validators of a reviewed table (V12).')
ASSUMPTIONS = [
    'ValueError raised inside verify_hyperparameters / canonicalize_* during '
    '__init__ or build is "rejected up front"',
    'inspect.signature of installed NumPy/TF/Keras describes accepted calls',
]

# class -> validator it must call during __init__ (anchor + belief source)
CLASS_VALIDATOR = {
    'lattice_layer.Lattice': 'lattice_lib.verify_hyperparameters',
    'lattice_layer.LatticeConstraints': 'lattice_lib.verify_hyperparameters',
    'lattice_layer.LinearInitializer': 'lattice_lib.verify_hyperparameters',
    'lattice_layer.RandomMonotonicInitializer':
        'lattice_lib.verify_hyperparameters',
    'pwl_calibration_layer.PWLCalibration':
        'pwl_calibration_lib.verify_hyperparameters',
    'pwl_calibration_layer.PWLCalibrationConstraints':
        'pwl_calibration_lib.verify_hyperparameters',
    'pwl_calibration_layer.UniformOutputInitializer':
        'pwl_calibration_lib.verify_hyperparameters',
    'linear_layer.Linear': 'linear_lib.verify_hyperparameters',
    'linear_layer.LinearConstraints': 'linear_lib.verify_hyperparameters',
    'categorical_calibration_layer.CategoricalCalibration':
        'categorical_calibration_lib.verify_hyperparameters',
    'categorical_calibration_layer.CategoricalCalibrationConstraints':
        'categorical_calibration_lib.verify_hyperparameters',
    'kronecker_factored_lattice_layer.KroneckerFactoredLattice':
        'kronecker_factored_lattice_lib.verify_hyperparameters',
    'rtl_layer.RTL': 'rtl_lib.verify_hyperparameters',
}

# V1 exemptions: (class, param) -> reason
V1_EXEMPT = {
    ('pwl_calibration_layer.UniformOutputInitializer', 'output_min'):
        'initializer bounds are the init range derived by the layer, which '
        'validated output_min/output_max itself',
}

PREMADE = ['CalibratedLatticeEnsemble', 'CalibratedLattice', 'CalibratedLinear',
           'AggregateFunction']


def run(prog, res):
  _v1(prog, res)
  _v1_siblings(prog, res)
  _v1_premade(prog, res)
  _v1_trust_roles(prog, res)
  _v2(prog, res)
  _v6(prog, res)
  _v7(prog, res)
  from . import _c16_synonyms
  _c16_synonyms.run(prog, res)
  _v5(prog, res)
  numeric_opts.check(prog, res, [f for f in prog.all_functions()
                                 if f.parent is None])
  from ..rules import seqkind
  seqkind.selfcheck()
  for f in prog.all_functions():
    seqkind.check_function(prog, res, f)
  res.floor('T3', 15)
  from ..rules import hashkeys
  for f in prog.all_functions():
    if f.parent is None:
      hashkeys.check_function(prog, res, f)
  res.floor('T4', 8)
  from ..rules import fmt
  for f in prog.all_functions():
    if f.parent is None:
      fmt.check_function(prog, res, f)
  res.floor('F0', 45)
  from ..rules import spelling as _sp
  _sp.check_case_agreement(prog, res, ['lattice_lib', 'lattice_layer', 'utils',
                                       'pwl_calibration_layer', 'premade_lib'])
  res.floor('V3c', 10)
  from ..rules import nonesafe
  vals = [f for f in prog.all_functions() if f.parent is None and
          'verify' in f.name]
  for f in vals:
    extra = set()
    for g in vals:
      if g is not f:
        extra |= nonesafe.maybe_none_args(prog, g, f)
    nonesafe.check_function(prog, res, f, extra_maybe=extra)
  res.floor('N1', 12)
  # lattice only: the linear validator rejects (d, d) through verify_acyclic
  for q in ('lattice_lib.verify_hyperparameters',
            'lattice_lib._verify_dominances_hyperparameters'):
    validate.check_distinct_pairs(prog, res, prog.function(q))
  res.floor('V9', 2)
  validate.check_bound_order(prog, res)
  res.floor('V10', 6)
  # ordering pairs with a cycle must be rejected or processed, never loop:
  # the visit discipline of the explicit-stack DFS (shared with C06)
  from . import C06
  C06._toposort_visits(prog, res)
  res.floor('O2', 1)
  # key-points are STRICTLY increasing: equal neighbours give a zero-length
  # piece (0 / 0 in the interpolation weights)
  vf = prog.function('pwl_calibration_lib.verify_hyperparameters')
  strict = loose = None
  for c in ast.walk(vf.node):
    if isinstance(c, ast.Compare) and len(c.ops) == 1 and all(
        isinstance(x, ast.Subscript) and dotted(x.value) == 'input_keypoints'
        for x in (c.left, c.comparators[0])):
      a, b = norm_text(c.left.slice), norm_text(c.comparators[0].slice)
      op = type(c.ops[0])
      if (a, b) == ('i + 1', 'i'):
        op = {ast.Gt: ast.Lt, ast.GtE: ast.LtE, ast.Lt: ast.Gt,
              ast.LtE: ast.GtE}.get(op, op)
        a, b = b, a
      if (a, b) == ('i', 'i + 1'):
        if op in (ast.Lt, ast.GtE):
          strict = c      # all(k[i] < k[i+1]) / any(k[i] >= k[i+1])
        elif op in (ast.LtE, ast.Gt):
          loose = c
    if isinstance(c, ast.Call) and dotted(c.func) == 'sorted' and c.args and \
        dotted(c.args[0]) == 'input_keypoints':
      loose = c
  if strict is None and loose is None:
    raise AnalysisError('pwl verify_hyperparameters: the order test of '
                        'input_keypoints was not found')
  res.check(strict is not None and loose is None, 'V11',
            'pwl_calibration_lib.verify_hyperparameters|strictly-increasing',
            vf.loc(strict or loose),
            'consecutive input keypoints are compared with <',
            'input keypoints are only required to be sorted (`%s`): equal '
            'neighbours are accepted, the piece between them has length 0 and '
            'the interpolation weights are 0 / 0' % norm_text(loose or
                                                              strict)[:60])
  res.floor('V11', 1)
  from ..rules import divisors
  divisors.check(prog, res, [f for f in prog.all_functions()
                             if f.parent is None])
  res.floor('D3', 7)
  from ..rules import staleloop as _sl
  _sl.check(prog, res, [f for f in prog.all_functions() if f.parent is None])
  res.floor('X6', 250)
  _sl.check_unused_iteration(prog, res, [f for f in prog.all_functions()])
  res.floor('X9', 200)
  _sl.check_raw_before_normalised(prog, res, [f for f in prog.all_functions()])
  res.floor('X10', 5)
  _verify_config_dispatch(prog, res)
  res.floor('V12', 6)
  from ..rules import siblings
  siblings.selfcheck()
  for f in prog.all_functions():
    if f.parent is None:
      siblings.check_function(prog, res, f)
  res.floor('CP1', 150)
  from ..rules import accum
  accum.check(prog, res, [f for f in prog.all_functions()])
  res.floor('S14', 20)
  res.floor('N0', 250)
  res.floor('V1', 60)
  res.floor('V1s', 3)
  res.floor('V1p', 8)
  res.floor('V1t', 1)
  res.floor('V2', 25)
  res.floor('V6', 8)
  res.floor('V7', 6)


# ---------------------------------------------------------------------------
def _v1(prog, res):
  for cq, vq in sorted(CLASS_VALIDATOR.items()):
    cls = prog.cls(cq)
    val = prog.function(vq)
    init = cls.find_method('__init__')
    res.analysed(init, val)
    calls = [c for c, v in validate.validator_calls(prog, init) if v is val]
    res.check(bool(calls), 'V1', '%s|calls-validator' % cq, init.loc(),
              '__init__ calls %s' % vq,
              '%s.__init__ no longer calls %s: no hyperparameter of this '
              'class is rejected at construction' % (cls.name, vq))
    exempt = {p: r for (c, p), r in V1_EXEMPT.items() if c == cq}
    validate.check_validator_belief(prog, res, cls, val, exempt=exempt)


def _verify_config_dispatch(prog, res):
  """V12: premade_lib.verify_config hands every kind of model config to the
  sub-validators that know its restrictions.  For each (config class,
  parameterization) the statements executed are followed (isinstance tests on
  the config class and comparisons of `parameterization` are decided, every
  other test is unknown and contributes nothing) and the set of `_verify_*`
  helpers that are certainly called is compared with the reviewed table: an
  ensemble is an ensemble AND, when Kronecker-factored, subject to the
  Kronecker-factored restrictions - a dispatch written as an if / elif chain
  on the class loses the second."""
  fn = prog.function('premade_lib.verify_config')
  res.analysed(fn)
  table = {
      ('CalibratedLatticeEnsembleConfig', 'all_vertices'):
          {'_verify_ensemble_config', '_verify_feature_config'},
      ('CalibratedLatticeEnsembleConfig', 'kronecker_factored'):
          {'_verify_ensemble_config', '_verify_kronecker_factored_config',
           '_verify_feature_config'},
      ('CalibratedLatticeConfig', 'all_vertices'): {'_verify_feature_config'},
      ('CalibratedLatticeConfig', 'kronecker_factored'):
          {'_verify_kronecker_factored_config', '_verify_feature_config'},
      ('CalibratedLinearConfig', None): {'_verify_feature_config'},
      ('AggregateFunctionConfig', None):
          {'_verify_aggregate_function_config', '_verify_feature_config'},
  }

  def decide(t, cls, par):
    if isinstance(t, ast.UnaryOp) and isinstance(t.op, ast.Not):
      v = decide(t.operand, cls, par)
      return None if v is None else not v
    if isinstance(t, ast.BoolOp):
      vs = [decide(v, cls, par) for v in t.values]
      if isinstance(t.op, ast.And):
        if any(v is False for v in vs):
          return False
        return True if all(v is True for v in vs) else None
      if any(v is True for v in vs):
        return True
      return False if all(v is False for v in vs) else None
    if isinstance(t, ast.Call) and dotted(t.func) == 'isinstance' and \
        len(t.args) == 2 and dotted(t.args[0]) == 'model_config':
      names = t.args[1].elts if isinstance(t.args[1], ast.Tuple) else [
          t.args[1]]
      return any((dotted(x) or '').split('.')[-1] == cls for x in names)
    if isinstance(t, ast.Compare) and len(t.ops) == 1 and dotted(
        t.left) == 'model_config.parameterization' and isinstance(
            t.comparators[0], ast.Constant):
      if par is None:
        return None
      eq = t.comparators[0].value == par
      if isinstance(t.ops[0], ast.Eq):
        return eq
      if isinstance(t.ops[0], ast.NotEq):
        return not eq
    return None

  def called(stmts, cls, par, out):
    for st in stmts:
      if isinstance(st, ast.If):
        v = decide(st.test, cls, par)
        if v is True:
          called(st.body, cls, par, out)
        elif v is False:
          called(st.orelse, cls, par, out)
        continue
      if isinstance(st, (ast.For, ast.While, ast.With)):
        called(st.body, cls, par, out)
        continue
      for c in ast.walk(st):
        if isinstance(c, ast.Call):
          nm = getattr(prog.resolve_call(fn, c), 'name', '') or ''
          if nm.startswith('_verify_'):
            out.add(nm)
  for (cls, par), want in sorted(table.items(), key=str):
    got = set()
    called(fn.node.body, cls, par, got)
    missing = sorted(want - got)
    res.check(not missing, 'V12', 'premade_lib.verify_config|%s|%s' % (
        cls, par), fn.loc(),
              '%s (%s) is checked by %s' % (cls, par, ', '.join(sorted(want))),
              'a %s%s is no longer handed to %s: its restrictions are not '
              'checked and an unsupported setting is silently dropped' % (
                  cls, ' with parameterization %r' % par if par else '',
                  ', '.join(missing)))


def _v1_siblings(prog, res):
  # only classes of one kind (regularizers / initializers / constraints);
  # layers have their own validator-belief obligations
  for m in ('lattice_layer', 'pwl_calibration_layer', 'linear_layer',
            'categorical_calibration_layer', 'cdf_layer', 'rtl_layer',
            'kronecker_factored_lattice_layer'):
    mod = prog.module(m)
    for f in mod.all_functions():
      if f.parent is None:
        validate.check_siblings(prog, res, f)


def _v1_premade(prog, res):
  vc = prog.function('premade_lib.verify_config')
  for name in PREMADE:
    cls = prog.cls('premade.' + name)
    for mname in ('__init__', 'from_config'):
      m = cls.methods.get(mname)
      if m is None:
        raise AnalysisError('premade.%s.%s vanished' % (name, mname))
      res.analysed(m)
      cfg = CFG(m.node)
      vnodes = set()
      for c in ast.walk(m.node):
        if isinstance(c, ast.Call) and prog.resolve_call(m, c) is vc:
          n = cfg.node_containing(c)
          if n is not None:
            vnodes.add(n)
      # every call into premade_lib.build_* / cls(...) is dominated
      users = []
      for c in ast.walk(m.node):
        if isinstance(c, ast.Call):
          r = prog.resolve_call(m, c)
          if (isinstance(r, FunctionInfo) and r.module.name == 'premade_lib'
              and r.name.startswith('build_')) or (
                  mname == 'from_config' and dotted(c.func) == 'cls'):
            users.append(c)
      good = bool(vnodes) and bool(users)
      for u in users:
        un = cfg.node_containing(u)
        if un is None or not any(cfg.dominates(v, un) and v != un
                                 for v in vnodes):
          good = False
      res.check(good, 'V1p', 'premade.%s.%s' % (name, mname), m.loc(),
                'verify_config dominates %d model-building call(s)' % len(users),
                'premade.%s.%s builds the model on a path that does not pass '
                'premade_lib.verify_config first' % (name, mname))


# ---------------------------------------------------------------------------
# V2 exceptions / allowances, keyed by (function qualname, variable)
V2_ELSE_DELEGATES = {
    # else branch hands any other id to keras.*.get, which raises ValueError
    # for unknown strings
}
V2_ALLOWED = {
    ('categorical_calibration_layer.CategoricalCalibration.__init__',
     'kernel_initializer'):
        'falls through to keras.initializers.get(kernel_initializer), which '
        'raises for unknown ids',
    ('lattice_lib.batch_outer_operation', 'operation'):
        'internal helper; `operation` is a callable or the literal "auto"',
    ('premade_lib.build_rtl_layer', 'feature_config.monotonicity'):
        'two-way predicate (monotone or not); agreement between the sibling '
        'predicates is rule W6 of C03',
    ('premade_lib.build_calibrated_lattice_ensemble_layer',
     'model_config.lattices'):
        'else branch = explicit list of lattices, checked by verify_config',
    ('premade_lib.set_random_lattice_ensemble', 'model_config.lattices'):
        'guard: raises unless lattices == "random"',
    ('premade_lib.construct_prefitting_model_config', 'model_config.lattices'):
        'guard: raises unless lattices == "crystals"',
    ('premade_lib.set_crystals_lattice_ensemble', 'model_config.lattices'):
        'guard: raises unless lattices == "crystals"',
}


def _basename(var):
  return var.split('.')[-1]


def _validated_sets(prog):
  """basename -> set of literals accepted by some validator (a `not in` /
  `!=` test that raises)."""
  out = {}
  for f in prog.all_functions():
    if f.parent is not None:
      continue
    for ch in validate.dispatch_chains(f.node):
      if ch.else_kind == 'none' and ch.total:
        lits = {h for h in ch.handled if not str(h).startswith('<other')}
        if lits:
          for k in (_basename(ch.var), (f.module.name, _basename(ch.var))):
            out.setdefault(k, set()).update(x for x in lits if x is not None)
    # `if <... x != 'a' and x != 'b' ...>: raise`
    for st in ast.walk(f.node):
      if isinstance(st, ast.If) and validate._always_raises(st.body):
        for c in ast.walk(st.test):
          if isinstance(c, ast.Compare) and len(c.ops) == 1 and isinstance(
              c.ops[0], (ast.NotEq, ast.NotIn)):
            v = validate._var_text(c.left)
            lits = validate._literals(c.comparators[0])
            if v and lits and all(isinstance(x, str) for x in lits):
              for k in (_basename(v), (f.module.name, _basename(v))):
                out.setdefault(k, set()).update(lits)
  # the validator in lattice_lib for joint unimodality direction uses
  # direction.lower() != 'valley' and != 'peak' (found by the And-form)
  return out


def _enum_members(prog):
  out = {}
  for c in prog.all_classes():
    if c.kind == 'Enum':
      out[c.name] = {'<%s>' % k for k in c.class_attrs}
  return out


def _else_delegates(prog, fn, chain):
  for st in chain.else_body:
    for c in ast.walk(st):
      if isinstance(c, ast.Call):
        ext = prog.ext_name(fn.module, c.func) or ''
        if ext.startswith('keras.') and ext.split('.')[-1] in (
            'get', 'deserialize'):
          return True
  return False


def _v2(prog, res):
  vsets = _validated_sets(prog)
  enums = _enum_members(prog)
  n = 0
  for f in prog.all_functions():
    if f.parent is not None or f.module.name in ('configs', 'model_info'):
      continue
    for ch in validate.dispatch_chains(f.node):
      strs = {h for h in ch.handled
              if isinstance(h, str) and not h.startswith('<other')}
      if not strs:
        continue
      if validate.is_validator(f) or f.name.startswith('canonicalize_'):
        continue   # the validators define the accepted sets
      n += 1
      res.analysed(f)
      key = '%s|%s' % (f.qualname, ch.var)
      loc = f.loc(ch.node)
      handled = sorted(map(str, strs))
      if ch.else_kind == 'raise' or (ch.total and ch.else_kind == 'none'):
        res.ok('V2', key, loc, 'handles %s, anything else raises' % handled)
        continue
      if (f.qualname, ch.var) in V2_ALLOWED:
        res.ok('V2', key, loc, 'handles %s; allowed: %s' % (
            handled, V2_ALLOWED[(f.qualname, ch.var)]))
        continue
      if ch.else_kind == 'body' and _else_delegates(prog, f, ch):
        res.ok('V2', key, loc, 'handles %s; else delegates to keras get/'
               'deserialize, which raises for unknown ids' % handled)
        continue
      is_enum = all(s.startswith('<') for s in strs)
      if is_enum and ch.else_kind == 'none' and _n_branches(ch) == 1:
        n -= 1
        continue
      if is_enum:
        universe = None
        for members in enums.values():
          if strs <= members:
            universe = members
        if universe is None:
          raise AnalysisError('%s: enum dispatch on %s with unknown members '
                              '%s' % (loc, ch.var, handled))
        rest = universe - strs
        if ch.else_kind == 'body' and strs == {'<NONE>'} and \
            _n_branches(ch) == 1 and not ch.node.orelse:
          # `if x == NONE: return ...` followed by the constrained case: the
          # binary split none / some constraint, not a dispatch
          n -= 1
          continue
        if ch.else_kind == 'body':
          res.check(len(rest) <= 1, 'V2', key, loc,
                    'enum dispatch handles %s, else covers %s' % (
                        handled, sorted(rest)),
                    'enum dispatch on %s handles %s; the else branch lumps '
                    'together %s' % (ch.var, handled, sorted(rest)))
        else:
          # no else: the unhandled members mean "do nothing" only for NONE
          res.check(rest <= {'<NONE>'} or _rest_rejected(f, ch, rest), 'V2',
                    key, loc,
                    'enum dispatch handles %s; %s need no action or are '
                    'rejected earlier in the function' % (handled,
                                                          sorted(rest)),
                    'enum dispatch on %s handles %s and silently ignores %s' %
                    (ch.var, handled, sorted(rest)))
        continue
      if ch.else_kind == 'none' and _n_branches(ch) == 1:
        # `if x == 'a': <extra step>` - an optional step, not a dispatch
        n -= 1
        continue
      S = vsets.get((f.module.name, _basename(ch.var))) or vsets.get(
          _basename(ch.var))
      if S is None:
        res.violation('V2', key, loc,
                      'string dispatch on %s handles %s, has no raising else '
                      'and no validator restricts the value' % (ch.var,
                                                                handled))
        continue
      rest = {str(x) for x in S} - set(handled)
      if ch.else_kind == 'body':
        res.check(len(rest) <= 1, 'V2', key, loc,
                  'handles %s, else covers the one remaining validated '
                  'value %s' % (handled, sorted(rest)),
                  'dispatch on %s handles %s; the else branch lumps together '
                  'the validated values %s' % (ch.var, handled, sorted(rest)))
      else:
        res.check(rest <= {'none'}, 'V2', key, loc,
                  'handles %s of the validated set %s (rest needs no '
                  'action)' % (handled, sorted(map(str, S))),
                  'dispatch on %s handles %s but the validator also accepts '
                  '%s, which is silently ignored here' % (ch.var, handled,
                                                          sorted(rest)))
  res.extra['string_dispatches'] = n


def _n_branches(ch):
  return len(ch.arms)


def _rest_rejected(fn, chain, rest):
  """Members in `rest` are rejected by a raise earlier in the function or
  handled by sibling chains on the same variable."""
  others = set()
  for ch in validate.dispatch_chains(fn.node):
    if ch.var == chain.var and ch.node is not chain.node:
      others |= {str(h) for h in ch.handled}
  # plain `if x == CLAMPED or y == CLAMPED: raise` tests
  for st in ast.walk(fn.node):
    if isinstance(st, ast.If) and validate._always_raises(st.body):
      for n in ast.walk(st.test):
        d = dotted(n) if isinstance(n, ast.Attribute) else None
        if d and d.split('.')[-1].isupper():
          others.add('<%s>' % d.split('.')[-1])
    if isinstance(st, ast.If):
      for n in ast.walk(st.test):
        d = dotted(n) if isinstance(n, ast.Attribute) else None
        if d and d.split('.')[-1].isupper() and chain.var in names_read(
            st.test):
          others.add('<%s>' % d.split('.')[-1])
  return rest - {'<NONE>'} <= others


# ---------------------------------------------------------------------------
def _v6(prog, res):
  n = 0
  for c in sorted(prog.all_classes(), key=lambda c: c.qualname):
    if c.kind != 'Layer':
      continue
    init = c.methods.get('__init__')
    if init is None:
      continue
    params = set(init.all_params)
    for mname in ('__init__', 'build'):
      m = c.methods.get(mname)
      if m is not None:
        res.analysed(m)
        n += validate.check_probes(prog, res, m, params,
                                   skip=('lattice_sizes', 'input_keypoints'))
  v = prog.function('rtl_lib.verify_hyperparameters')
  n += validate.check_probes(prog, res, v, set(v.all_params),
                             skip=('input_shape',))
  return n


# ---------------------------------------------------------------------------
# V7: reviewed raise sites reachable from weight projections (outside the
# validators / canonicalizers).  key = (function, index of the raise in the
# function).  Kinds:
#   invariant-guard   every in-repo caller guards the call with a test that
#                     reads all of `reads` (re-checked)
#   invariant-literal every call passes a literal for `param` (re-checked)
#   invariant-read    confirmed by reading; reason given
#   prevalidated      the enclosing function must be reachable from the
#                     construction path of every constraint that reaches it
#   prevalidated-by   a raise in the construction path must jointly read
#                     the given parameter groups
V7_TABLE = {
    ('lattice_lib._project_partial_monotonicity', 0): {
        'kind': 'invariant-guard', 'reads': ('monotonicities',
                                              'unimodalities'),
        'why': 'body() skips unconstrained dimensions with `continue`'},
    ('lattice_lib._project_partial_joint_unimodality', 0): {
        'kind': 'invariant-read',
        'why': 'vertex enumerates itertools.product over exactly the '
               'constraint\'s own dimensions tuple'},
    ('pwl_calibration_lib._project_bounds_considering_monotonicity', 0): {
        'kind': 'invariant-guard', 'reads': ('monotonicity',),
        'why': 'called only on the monotonicity != 0 branches / recursion '
               'with -monotonicity'},
    ('pwl_calibration_lib._project_convexity', 0): {
        'kind': 'invariant-literal', 'param': 'constraint_group',
        'why': 'constraint_group is always the literal 0 or 1'},
    ('internal_utils._topological_sort', 0): {
        'kind': 'prevalidated',
        'why': 'cyclic ordering pairs are a property of the configuration '
               'alone; the same check must run when the constraint / layer is '
               'constructed'},
    ('pwl_calibration_lib._approximately_project_bounds_only', 0): {
        'kind': 'prevalidated-by',
        'groups': (('monotonicity',),
                   ('output_min_constraints', 'output_max_constraints',
                    'clamp_min', 'clamp_max')),
        'why': 'clamping without monotonicity is a property of the '
               'configuration alone'},
}


def _v7(prog, res):
  seen_sites = set()
  for c in sorted(prog.all_classes(), key=lambda c: c.qualname):
    if c.kind != 'Constraint' or '__call__' not in c.methods:
      continue
    callm = c.methods['__call__']
    res.analysed(callm)
    proj = validate.call_closure(prog, [callm])
    ctor_roots = [c.find_method('__init__')]
    # the layers that build this constraint validate too
    for l in prog.all_classes():
      if l.kind == 'Layer':
        for mname in ('__init__', 'build'):
          m = l.methods.get(mname)
          if m is None:
            continue
          for call in ast.walk(m.node):
            if isinstance(call, ast.Call) and prog.resolve_call(
                m, call) is c:
              ctor_roots.append(l.methods.get('__init__'))
              ctor_roots.append(l.methods.get('build'))
    ctor = validate.call_closure(prog, [r for r in ctor_roots if r])
    for q, f in sorted(proj.items()):
      if validate.is_validator(f) or f.name.startswith('canonicalize_'):
        # validators re-run at projection time: fine when the same validator
        # also runs on the construction path
        if any(True for _ in validate.raise_sites(f)):
          key = '%s|revalidates:%s' % (c.qualname, q)
          res.check(q in ctor, 'V7', key, f.loc(),
                    '%s also runs on the construction path' % q,
                    '%s runs (and may raise) at projection time but not when '
                    '%s is constructed' % (q, c.name))
        continue
      for idx, r in validate.raise_sites(f):
        entry = V7_TABLE.get((q, idx))
        key = '%s|%s#%d' % (c.qualname, q, idx)
        if entry is None:
          raise AnalysisError(
              '%s: unreviewed raise reachable from %s.__call__; add it to the '
              'V7 table after reading it' % (f.loc(r), c.qualname))
        _v7_entry(prog, res, c, f, r, entry, key, ctor, proj)


def _v7_entry(prog, res, c, f, r, entry, key, ctor, proj):
  kind = entry['kind']
  if kind == 'invariant-read':
    res.ok('V7', key, f.loc(r), 'internal invariant: ' + entry['why'])
    return
  callers = []
  for g in proj.values():
    for call in ast.walk(g.node):
      if isinstance(call, ast.Call) and prog.resolve_call(g, call) is f \
          and g is not f:
        callers.append((g, call))
  if kind == 'invariant-guard':
    good = bool(callers)
    for g, call in callers:
      gs = structural_guards(g.node, call) or []
      reads = set()
      for t, pol in gs:
        reads |= {x.split('.')[-1] for x in names_read(t)}
      if not set(entry['reads']) <= reads:
        good = False
    res.check(good, 'V7', key, f.loc(r),
              'internal invariant: every caller guards on %s (%s)' % (
                  '/'.join(entry['reads']), entry['why']),
              'raise in %s is reachable from %s.__call__ through a call that '
              'is not guarded on %s' % (f.qualname, c.name,
                                        '/'.join(entry['reads'])))
    return
  if kind == 'invariant-literal':
    good = bool(callers)
    for g, call in callers:
      bound, _, _ = call_args(call, f.all_params)
      v = bound.get(entry['param'])
      ok_lit = isinstance(v, ast.Constant)
      if not ok_lit and isinstance(v, ast.Name):
        # loop variable over a literal list
        for loop in ast.walk(g.node):
          if isinstance(loop, ast.For) and dotted(loop.target) == v.id and \
              isinstance(loop.iter, (ast.List, ast.Tuple)) and all(
                  isinstance(e, ast.Constant) for e in loop.iter.elts):
            ok_lit = True
      if not ok_lit and isinstance(v, ast.Constant) is False and v is not None:
        if isinstance(v, ast.JoinedStr):
          ok_lit = False
      good = good and ok_lit
    res.check(good, 'V7', key, f.loc(r),
              'internal invariant: %s' % entry['why'],
              'raise in %s: some call passes a non-literal %s' % (
                  f.qualname, entry['param']))
    return
  if kind == 'prevalidated':
    res.check(f.qualname in ctor, 'V7', key, f.loc(r),
              '%s also runs on the construction path of %s' % (f.qualname,
                                                              c.name),
              'configuration-only raise in %s is reached when %s first '
              'projects, but never while the layer / constraint is '
              'constructed or built (%s)' % (f.qualname, c.name,
                                             entry['why']))
    return
  if kind == 'prevalidated-by':
    found = False
    for g in ctor.values():
      for idx2, r2 in validate.raise_sites(g):
        gs = structural_guards(g.node, r2) or []
        reads = set()
        from ..rules.wiring import FnCtx
        ctx = FnCtx.of(g)
        for t, pol in gs:
          for x in ctx.expand_reads(t):
            reads.add(x.split('.')[-1])
        if all(any(p in reads for p in grp) for grp in entry['groups']):
          found = True
    res.check(found, 'V7', key, f.loc(r),
              'an equivalent test raises on the construction path of %s' %
              c.name,
              'configuration-only raise in %s is reached when %s first '
              'projects; no raise on the construction path tests %s together '
              '(%s)' % (f.qualname, c.name, ' and '.join(
                  '/'.join(g) for g in entry['groups']), entry['why']))
    return
  raise AnalysisError('V7 table: unknown kind %s' % kind)


# ---------------------------------------------------------------------------
def _v5(prog, res):
  roots = ('np',)
  if res.tier == 'thorough':
    roots = ('np', 'tf', 'keras')
  total = unres = 0
  for f in prog.all_functions():
    if f.parent is not None:
      continue
    c, u = api.check_calls(prog, res, f, roots=roots)
    total += c
    unres += u
  res.extra['api_calls_checked'] = total
  res.extra['api_calls_without_signature'] = unres
  res.floor('V5', 60)


# ---------------------------------------------------------------------------
def _v1_trust_roles(prog, res):
  """V1t: "a feature used as both main and conditional" must be rejected for
  every listing order: the rejecting test reads an accumulator of *all* main
  dims and an accumulator of *all* conditional dims (or tests both
  directions inside the loop)."""
  v = prog.function('lattice_lib.verify_hyperparameters')
  acc = {}   # accumulator name -> loop variable it collects
  for c in ast.walk(v.node):
    if isinstance(c, ast.Call) and isinstance(c.func, ast.Attribute) and \
        c.func.attr == 'add' and c.args and dotted(c.args[0]) in (
            'main_dim', 'cond_dim'):
      acc.setdefault(dotted(c.func.value), set()).add(dotted(c.args[0]))
  main_acc = {a for a, vs in acc.items() if vs == {'main_dim'}}
  cond_acc = {a for a, vs in acc.items() if vs == {'cond_dim'}}
  from ..rules.wiring import FnCtx
  ctx = FnCtx.of(v)
  good = False
  dirs = set()
  for idx, r in validate.raise_sites(v):
    gs = structural_guards(v.node, r) or []
    reads = set()
    for t, pol in gs[-1:]:
      reads |= ctx.expand_reads(t, keep_locals=True)
    if reads & main_acc and reads & cond_acc:
      good = True
    if 'main_dim' in reads and reads & cond_acc:
      dirs.add('main-in-cond')
    if 'cond_dim' in reads and reads & main_acc:
      dirs.add('cond-in-main')
  good = good or dirs == {'main-in-cond', 'cond-in-main'}
  res.check(good, 'V1t', 'lattice_lib.verify_hyperparameters|trust-both-roles',
            v.loc(),
            'the both-roles rejection compares all main dims with all '
            'conditional dims (order independent)',
            'the rejection of a feature used as both main and conditional '
            'feature of trust constraints does not compare the set of all '
            'main dims with the set of all conditional dims (found one-sided '
            'tests %s): whether the configuration is rejected depends on the '
            'listing order' % sorted(dirs))
