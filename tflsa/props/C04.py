"""C04 - PWLCalibration weight constraint (W1 W3 W4 P1 P2 P3 L4 T1)."""
import ast

from ..model import (AnalysisError, FunctionInfo, orelse_view, dotted, norm_text,
                     names_read, const_value, is_none, call_args)
from ..cfg import CFG, structural_guards
from ..rules import roles
from ..rules import wiring
from ..rules import guards
from ..rules import dykstra
from ..rules import numeric_opts
from ..rules import affine_rules
from ..rules import influence

TECHNIQUE = ('forwarding lint, must-order on the CFG of _finalize_constraints, '
             'sign<->op pairing tables evaluated per configuration, coherent '
             'mirror-call rule for the decreasing case, Dykstra bookkeeping '
             'pairing, enum-conversion table')
EXPLANATION = (
    'Static analysis of necessary conditions of C04, not of feasibility for '
    'every kernel: every PWL hyperparameter reaches project_all_constraints '
    '(W1) and the constraint is attached in every state in which it acts '
    '(W2/W3 under C03); finalisation runs monotonic clip -> convexity fix -> '
    'bounds on every path (W4); monotonicity 1 pairs with maximum(heights, 0) '
    'and -1 with minimum, convexity 1 with maximum against the scaled '
    'previous height (P3); the decreasing case is reduced to the increasing '
    'one by a coherent negate-and-swap of all bound arguments and the result '
    'is negated back (P1 mirror); clamp flags convert to CLAMPED / BOUND / '
    'NONE exactly as named (T1); cumulative-sum clipping uses min with max '
    'and max with min (P2) and rebuilds bias/heights by first differences; '
    'Dykstra roll-back bookkeeping is paired per key (L4).  The affine '
    'identities of the bound projection (L2) are decided under C08.'
    ' Also decided: each bound of NaiveBoundsConstraints is clipped under its own guard (K3); in all 72 (monotonicity, convexity, min kind, max kind) configurations the strictly finalised kernel depends on every configured bound (K4, influence analysis through the negate-and-swap recursion); convexity group g is projected whenever g + 2 heights exist (T2).'
    ' Nothing that is used later is computed from a value before the statement that clips that value (X5, self-clip order).')
ASSUMPTIONS = ['tf.maximum/minimum/cumsum/concat semantics',
               'Keras re-applies the constraint after each update']

PL = 'pwl_calibration_lib'


def run(prog, res):
  _wiring(prog, res)
  _finalize_order(prog, res)
  _sign_ops(prog, res)
  _conversion(prog, res)
  _bounds_only(prog, res)
  _mirror_results(prog, res)
  _squeeze_clips(prog, res)
  res.floor('K3s', 2)
  guards.check_self_clip_order(prog, res, [
      f for f in prog.module('pwl_calibration_lib').all_functions()])
  res.floor('X5', 10)
  affine_rules.check_pwl_bounds(prog, res)
  res.floor('L2', 16)
  fn = prog.function(PL + '.project_all_constraints')
  body = [n for n in ast.walk(fn.node) if isinstance(n, ast.FunctionDef)
          and n.name == 'body']
  if not body:
    raise AnalysisError('project_all_constraints: body() not found')
  res.analysed(fn)
  dykstra.check_bookkeeping(prog, res, fn, body[0])
  fns = [f for f in prog.module(PL).all_functions() if f.parent is None]
  for f in fns:
    roles.check_function_roles(prog, res, f)
    roles.check_clip_polarity(prog, res, f)
  numeric_opts.check(prog, res, fns)
  nb = prog.function('pwl_calibration_layer.NaiveBoundsConstraints.__call__')
  guards.check_bound_guards(prog, res, nb, [('self.lower_bound', 'min'),
                                            ('self.upper_bound', 'max')])
  res.floor('K3', 2)
  _size_guards(prog, res, fn, body[0])
  _bound_influence(prog, res)
  res.floor('K4', 6)
  res.floor('T2', 2)
  res.floor('W1', 16)
  res.floor('W4', 4)
  res.floor('P3', 6)
  res.floor('T1', 6)
  res.floor('P1', 20)
  res.floor('P2', 4)
  res.floor('L4', 15)
  res.floor('M1', 4)


def _wiring(prog, res):
  cls = prog.cls('pwl_calibration_layer.PWLCalibrationConstraints')
  cm = cls.methods['__call__']
  t = prog.function(PL + '.project_all_constraints')
  res.analysed(cm, t)
  calls = wiring.calls_to(prog, cm, t)
  if len(calls) != 1:
    raise AnalysisError('PWLCalibrationConstraints.__call__ changed shape')
  wiring.check_forwarding(prog, res, cm, calls[0], t, rule='W1')
  gs = structural_guards(cm.node, calls[0]) or []
  res.check(not gs, 'W1', '%s|unguarded' % cm.qualname, cm.loc(calls[0]),
            'projection applied unconditionally',
            'projection call is guarded: %s' % [norm_text(g[0]) for g in gs])
  # inner forwarding: project_all_constraints -> helpers keeps every kind
  body = [n for n in ast.walk(t.node) if isinstance(n, ast.FunctionDef)]
  for c in ast.walk(t.node):
    if isinstance(c, ast.Call):
      r = prog.resolve_call(t, c)
      if isinstance(r, FunctionInfo) and r.module.name == PL and \
          r.name.startswith('_'):
        bound, _, _ = call_args(c, r.all_params)
        for p in r.all_params:
          if p in t.all_params or p in ('bias', 'heights'):
            if p in ('bias', 'heights', 'weights'):
              continue
            key = '%s->%s|%s@%d' % (t.qualname, r.name, p,
                                    c.lineno - t.node.lineno)
            v = bound.get(p)
            res.check(v is not None and dotted(v) == p, 'W1', key, t.loc(c),
                      '%s forwarded unchanged' % p,
                      'hyperparameter %r is passed to %s as %s' % (
                          p, r.name, norm_text(v) if v is not None
                          else '<missing>'))
  build = prog.function('pwl_calibration_layer.PWLCalibration.build')
  for c in wiring.calls_to(prog, build, cls):
    wiring.check_forwarding(
        prog, res, build, c, cls, rule='W1',
        aliases={'lengths': ('_lengths', 'input_keypoints'),
                 'output_min_constraints': '_output_min_constraints',
                 'output_max_constraints': '_output_max_constraints'})


def _finalize_order(prog, res):
  fn = prog.function(PL + '._finalize_constraints')
  res.analysed(fn)
  cfg = CFG(fn.node)
  nodes = {}
  for st in ast.walk(fn.node):
    if isinstance(st, ast.Assign) and isinstance(st.value, ast.Call):
      r = prog.resolve_call(fn, st.value)
      if isinstance(r, FunctionInfo):
        nodes.setdefault(r.name, []).append(cfg.node_of(st))
  order = ['_project_monotonicity', '_approximately_project_convexity']
  bounds = ['_squeeze_by_scaling', '_approximately_project_bounds_only']
  for name in order + bounds:
    if name not in nodes:
      raise AnalysisError('_finalize_constraints no longer calls %s' % name)
  def before(a, b):
    return all(y in cfg.reachable_from(x) and x not in cfg.reachable_from(y)
               for x in nodes[a] for y in nodes[b])
  res.check(before(order[0], order[1]), 'W4',
            '%s|monotonic-before-convexity' % fn.qualname, fn.loc(),
            'monotonic clip precedes the convexity fix',
            'the convexity fix must come after the monotonic clip (it scales '
            'the previous, already clipped height)')
  for b in bounds:
    res.check(before(order[0], b) and before(order[1], b), 'W4',
              '%s|shape-before-%s' % (fn.qualname, b), fn.loc(),
              'monotonicity and convexity fixes precede %s' % b,
              '%s must run after the monotonicity and convexity fixes: '
              'they can only move the function past the bounds' % b)
  ret = [s for s in ast.walk(fn.node) if isinstance(s, ast.Return)]
  good = len(ret) == 1 and isinstance(ret[0].value, ast.Call) and \
      prog.ext_name(fn.module, ret[0].value.func) == 'tf.concat' and \
      [dotted(e) for e in ret[0].value.args[0].elts] == ['bias', 'heights']
  res.check(good, 'W4', '%s|returns-concat' % fn.qualname, fn.loc(),
            'returns concat([bias, heights], axis=0)',
            '_finalize_constraints must return the finalised bias and '
            'heights in kernel order')
  # squeeze only when both shapes constrain; else cumulative clip
  # project_all_constraints ends in _finalize_constraints
  pa = prog.function(PL + '.project_all_constraints')
  rets = [s for s in pa.node.body if isinstance(s, ast.Return)]
  good = bool(rets) and isinstance(rets[-1].value, ast.Call) and \
      prog.resolve_call(pa, rets[-1].value) is fn
  res.check(good, 'W4', '%s|ends-in-finalize' % pa.qualname, pa.loc(),
            'the iterative path returns _finalize_constraints(...)',
            'project_all_constraints no longer finalises the iterated '
            'weights')


def _returned_op(prog, fn, stmts):
  for st in stmts:
    if isinstance(st, ast.Return):
      v = st.value
      if isinstance(v, ast.Call):
        ext = prog.ext_name(fn.module, v.func)
        if ext in ('tf.maximum', 'tf.minimum') and const_value(
            v.args[1]) == 0.0:
          return ext
        if ext == 'tf.nn.relu':
          return 'tf.maximum'
        return 'other:%s' % norm_text(v)[:30]
      return 'identity' if dotted(v) == 'heights' else 'other'
  return 'none'


def _sign_ops(prog, res):
  fn = prog.function(PL + '._project_monotonicity')
  res.analysed(fn)
  want = {0: 'identity', 1: 'tf.maximum', -1: 'tf.minimum'}
  for m, exp in sorted(want.items()):
    got = None
    # evaluate the chain for the concrete canonical value m
    from ..rules import spelling
    head = [s for s in fn.node.body if isinstance(s, ast.If)]
    if not head:
      raise AnalysisError('_project_monotonicity: dispatch vanished')
    arms, else_body = orelse_view(fn.node).chain(head[0])
    sig = spelling.chain_signature(head[0], 'monotonicity', m, arms=arms)
    bodies = [a.body for a in arms] + [else_body]
    last = sig[-1]
    stmts = bodies[last[1]] if last[0] == 'T' else bodies[-1]
    got = _returned_op(prog, fn, stmts)
    res.check(got == exp, 'P3', '%s|monotonicity=%d' % (fn.qualname, m),
              fn.loc(), 'monotonicity %d -> %s(heights, 0)' % (m, exp),
              'monotonicity %d is projected with %s, expected %s: heights '
              'of an %s function must be %s 0' % (
                  m, got, exp, 'increasing' if m == 1 else 'decreasing',
                  '>=' if m == 1 else '<='))
  # convexity: 1 -> maximum(h[i], h[i-1] * l[i]/l[i-1]) ; -1 -> minimum
  fn = prog.function(PL + '._approximately_project_convexity')
  res.analysed(fn)
  for loop in ast.walk(fn.node):
    if isinstance(loop, ast.For):
      temp_ok = False
      # the unstacked rows may be held under any local name: H / L are the
      # lists made by tf.unstack of the heights / lengths
      H, L = 'heights', 'lengths'
      for st0 in ast.walk(fn.node):
        if isinstance(st0, ast.Assign) and isinstance(
            st0.targets[0], ast.Name) and isinstance(st0.value, ast.Call) \
            and prog.ext_name(fn.module, st0.value.func) == 'tf.unstack' \
            and st0.value.args:
          src = dotted(st0.value.args[0])
          if src in ('heights', H):
            H = st0.targets[0].id
          elif src in ('lengths', L):
            L = st0.targets[0].id
      SLOPE = ('%s[i-1]*(%s[i]/%s[i-1])' % (H, L, L),
               '%s[i-1]*%s[i]/%s[i-1]' % (H, L, L))
      temp_def = {}
      for st in loop.body:
        if isinstance(st, ast.Assign) and isinstance(st.targets[0], ast.Name):
          temp_def[st.targets[0].id] = norm_text(st.value).replace(' ', '')
        if isinstance(st, ast.If) and 'convexity' in names_read(st.test):
          v = const_value(st.test.comparators[0]) if isinstance(
              st.test, ast.Compare) else None
          ops = {}
          for branch, sign in ((st.body, v), (st.orelse, -v if v else None)):
            for a in branch:
              if isinstance(a, ast.Assign) and isinstance(a.value, ast.Call):
                # the second operand through its local name, if it has one
                args = [norm_text(x) for x in a.value.args]
                if len(args) == 2:
                  second = temp_def.get(args[1], args[1].replace(' ', ''))
                  # unstacked in place
                  second = second.replace('tf.unstack(lengths,axis=0)', L) \
                      .replace('tf.unstack(heights,axis=0)', H)
                  if second in SLOPE:
                    temp_ok = True
                    args[1] = 'temp'
                ops[sign] = (prog.ext_name(fn.module, a.value.func), args)
          for sign, exp in ((1, 'tf.maximum'), (-1, 'tf.minimum')):
            got = ops.get(sign, (None, []))
            res.check(got[0] == exp and got[1] == ['%s[i]' % H, 'temp'],
                      'P3', '%s|convexity=%d' % (fn.qualname, sign),
                      fn.loc(st),
                      'convexity %d -> %s(heights[i], scaled previous '
                      'height)' % (sign, exp),
                      'convexity %d is fixed with %s%s, expected %s('
                      'heights[i], temp): slopes of a %s function must be '
                      'non-%s' % (sign, got[0], got[1], exp,
                                  'convex' if sign == 1 else 'concave',
                                  'decreasing' if sign == 1 else 'increasing'))
      res.check(temp_ok, 'P3', '%s|slope-scaling' % fn.qualname, fn.loc(loop),
                'previous height rescaled by lengths[i]/lengths[i-1] (equal '
                'slopes)',
                'the comparison height must be heights[i-1] * (lengths[i] / '
                'lengths[i-1]) so that slopes, not heights, are compared')
      rng = loop.iter
      good = isinstance(rng, ast.Call) and dotted(rng.func) == 'range' and \
          const_value(rng.args[0]) == 1
      res.check(good, 'P3', '%s|sequential' % fn.qualname, fn.loc(loop),
                'sequential pass from the second height on',
                'the convexity pass must start at index 1 and run forward')


def _conversion(prog, res):
  """T1: clamp flag / bound -> BoundConstraintsType."""
  fn = prog.function(PL + '._convert_constraints')
  res.analysed(fn)
  table = {}
  for r in ast.walk(fn.node):
    if isinstance(r, ast.Return) and isinstance(r.value, ast.Tuple):
      gs = structural_guards(fn.node, r) or []
      cond = tuple(sorted((norm_text(t), pol) for t, pol in gs))
      table[cond] = (norm_text(r.value.elts[0]), dotted(
          r.value.elts[1]).split('.')[-1])
  want = {
      (('value is None', True),): ('0.0', 'NONE'),
      (('clamp_to_value', True), ('value is None', False)): ('value',
                                                             'CLAMPED'),
      (('clamp_to_value', False), ('value is None', False)): ('value',
                                                              'BOUND'),
  }
  for cond, exp in sorted(want.items()):
    got = table.get(tuple(sorted(cond)))
    res.check(got == exp, 'T1', '%s|%s' % (fn.qualname, exp[1]), fn.loc(),
              '%s -> %s' % (' and '.join(('' if p else 'not ') + t
                                         for t, p in cond), exp[1]),
              'bound conversion for (%s) yields %s, expected %s' % (
                  cond, got, exp))
  ca = prog.function(PL + '.convert_all_constraints')
  res.analysed(ca)
  for st in ast.walk(ca.node):
    if isinstance(st, ast.Assign) and isinstance(st.value, ast.Call) and \
        prog.resolve_call(ca, st.value) is fn:
      tg = [dotted(e) for e in st.targets[0].elts]
      args = [dotted(a) for a in st.value.args]
      r0 = roles.role_of_name(tg[0])
      good = (roles.role_of_name(tg[1]) == r0
              and all(roles.role_of_name(a) == r0 for a in args))
      res.check(good, 'T1', '%s|%s@%d' % (ca.qualname, tg[0],
                                          st.lineno - ca.node.lineno),
                ca.loc(st), '%s, %s <- convert(%s)' % (tg[0], tg[1],
                                                       ', '.join(args)),
                'convert_all_constraints mixes min and max roles: %s = '
                '_convert_constraints(%s)' % (tg, args))
  ret = [r for r in ast.walk(ca.node) if isinstance(r, ast.Return)]
  names = [dotted(e) for e in ret[-1].value.elts] if ret else []
  res.check(names == ['output_min', 'output_max', 'output_min_constraints',
                      'output_max_constraints'], 'T1',
            '%s|return-order' % ca.qualname, ca.loc(),
            'returns (min, max, min_constraints, max_constraints)',
            'convert_all_constraints returns %s' % names)


def _bounds_only(prog, res):
  fn = prog.function(PL + '._approximately_project_bounds_only')
  res.analysed(fn)
  cfg = CFG(fn.node)
  sums_def = recon_b = recon_h = None
  for st in ast.walk(fn.node):
    if isinstance(st, ast.Assign):
      t = dotted(st.targets[0])
      v = norm_text(st.value).replace(' ', '')
      if t == 'sums' and 'tf.cumsum(tf.concat([bias,heights],axis=0)' in v:
        sums_def = st
      if t == 'bias' and v == 'sums[:1]':
        recon_b = st
      if t == 'heights' and v == 'sums[1:]-sums[:-1]':
        recon_h = st
  res.check(sums_def is not None and recon_b is not None
            and recon_h is not None, 'P2', '%s|cumsum-roundtrip' % fn.qualname,
            fn.loc(),
            'outputs = cumsum([bias, heights]); clipped; bias = sums[0:1], '
            'heights = first differences',
            'the cumulative-sum round trip (cumsum, clip, first differences) '
            'is broken: keypoint outputs are no longer what is clipped')
  for bound, op in (('output_min', 'tf.maximum'), ('output_max', 'tf.minimum')):
    good = False
    for st in ast.walk(fn.node):
      if isinstance(st, ast.If) and ('%s_constraints' % bound) in names_read(
          st.test):
        for a in st.body:
          if isinstance(a, ast.Assign) and dotted(a.targets[0]) == 'sums' \
              and isinstance(a.value, ast.Call) and prog.ext_name(
                  fn.module, a.value.func) == op and [
                      dotted(x) for x in a.value.args] == ['sums', bound]:
            tst = st.test
            good = isinstance(tst, ast.Compare) and dotted(
                tst.comparators[0]).endswith('BOUND') and isinstance(
                    tst.ops[0], ast.Eq)
    res.check(good, 'P2', '%s|%s' % (fn.qualname, bound), fn.loc(),
              '%s_constraints == BOUND -> sums = %s(sums, %s)' % (
                  bound, op.split('.')[-1], bound),
              'the %s clip of the keypoint outputs is not %s(sums, %s) under '
              '%s_constraints == BOUND' % (bound, op, bound, bound))


def _squeeze_clips(prog, res):
  """K3s: _squeeze_by_scaling (increasing case) moves the bias into the
  bounds first - tf.maximum(bias, output_min) whenever output_min is
  constrained, tf.minimum(bias, output_max) whenever output_max is - and only
  then scales the heights into what is left.  The statements executed are
  enumerated for the 3 x 3 constraint types of the two bounds; a clip that
  sits in the elif / else of the other bound's test is skipped exactly when
  both bounds are set (delta = output_max - bias becomes negative)."""
  fn = prog.function(PL + '._squeeze_by_scaling')
  res.analysed(fn)
  TYPES = ('NONE', 'BOUND', 'CLAMPED')

  def decide(t, env):
    if isinstance(t, ast.BoolOp):
      vs = [decide(v, env) for v in t.values]
      if isinstance(t.op, ast.And):
        return False if False in vs else (None if None in vs else True)
      return True if True in vs else (None if None in vs else False)
    if isinstance(t, ast.UnaryOp) and isinstance(t.op, ast.Not):
      v = decide(t.operand, env)
      return None if v is None else (not v)
    if isinstance(t, ast.Compare) and len(t.ops) == 1:
      l, r = dotted(t.left), dotted(t.comparators[0])
      if l in env and r and r.split('.')[-1] in TYPES:
        eq = env[l] == r.split('.')[-1]
        if isinstance(t.ops[0], ast.Eq):
          return eq
        if isinstance(t.ops[0], ast.NotEq):
          return not eq
      if l == 'monotonicity':
        c = const_value(t.comparators[0], None)
        if isinstance(t.ops[0], ast.Eq):
          return env['monotonicity'] == c
        if isinstance(t.ops[0], ast.NotEq):
          return env['monotonicity'] != c
    return None

  def run_block(stmts, env, out):
    for st in stmts:
      if isinstance(st, ast.If):
        v = decide(st.test, env)
        if v is None:
          a = run_block(st.body, env, out)
          b = run_block(st.orelse, env, out)
          if a and b:
            return True
          continue
        if run_block(st.body if v else st.orelse, env, out):
          return True
        continue
      out.append(st)
      if isinstance(st, (ast.Return, ast.Raise)):
        return True
    return False

  def clips(stmts, op, bound):
    for st in stmts:
      for c in ast.walk(st):
        if isinstance(c, ast.Call) and (prog.ext_name(fn.module, c.func) or
                                        '') == op and len(c.args) == 2 and \
            {dotted(c.args[0]), dotted(c.args[1])} == {'bias', bound}:
          return True
        if isinstance(c, ast.Call) and (prog.ext_name(
            fn.module, c.func) or '').endswith('clip_by_value') and dotted(
                c.args[0] if c.args else None) == 'bias':
          kw = {k.arg: k.value for k in c.keywords}
          lo = c.args[1] if len(c.args) > 1 else kw.get('clip_value_min')
          hi = c.args[2] if len(c.args) > 2 else kw.get('clip_value_max')
          if dotted(lo if op == 'tf.maximum' else hi) == bound:
            return True
    return False
  for bound, op, key in (('output_min', 'tf.maximum', 'output_min_constraints'),
                         ('output_max', 'tf.minimum', 'output_max_constraints')):
    missing = None
    for tmin in TYPES:
      for tmax in TYPES:
        env = {'output_min_constraints': tmin, 'output_max_constraints': tmax,
               'monotonicity': 1}
        if env[key] == 'NONE':
          continue
        out = []
        run_block(fn.node.body, env, out)
        if not clips(out, op, bound) and missing is None:
          missing = (tmin, tmax)
    res.check(missing is None, 'K3s', '%s|bias-%s' % (fn.qualname, bound),
              fn.loc(),
              'the bias is clipped against %s in every state where it is '
              'constrained' % bound,
              'with output_min_constraints=%s, output_max_constraints=%s the '
              'bias is not clipped against %s (%s): the heights are scaled '
              'into a range computed from an unclipped bias' % (
                  (missing or ('', ''))[0], (missing or ('', ''))[1], bound,
                  op))


def _mirror_results(prog, res):
  """M1: both mirror recursions negate their inputs and their results."""
  for q in (PL + '._project_bounds_considering_monotonicity',
            PL + '._squeeze_by_scaling'):
    fn = prog.function(q)
    res.analysed(fn)
    rec = None
    for c in ast.walk(fn.node):
      if isinstance(c, ast.Call) and prog.resolve_call(fn, c) is fn:
        rec = c
    if rec is None:
      raise AnalysisError('%s: mirror recursion vanished' % q)
    kw = {k.arg: k.value for k in rec.keywords}
    neg_in = all(isinstance(kw.get(p), ast.UnaryOp) and isinstance(
        kw[p].op, ast.USub) and dotted(kw[p].operand) == p
                 for p in ('bias', 'heights'))
    mono1 = const_value(kw.get('monotonicity')) == 1
    gs = structural_guards(fn.node, rec) or []
    guard_ok = any(isinstance(t, ast.Compare) and dotted(t.left) ==
                   'monotonicity' and const_value(t.comparators[0]) == -1
                   and pol for t, pol in gs)
    res.check(neg_in and mono1 and guard_ok, 'M1', '%s|inputs' % q,
              fn.loc(rec),
              'decreasing case: recursion on (-bias, -heights) with '
              'monotonicity=1 under `monotonicity == -1`',
              'the decreasing case must recurse on the negated kernel with '
              'monotonicity=1 (negated inputs=%s, monotonicity=1: %s, '
              'guard: %s)' % (neg_in, mono1, guard_ok))
    # result negated back
    from ..cfg import enclosing_stmt
    st = enclosing_stmt(fn.node, rec)
    tg = [dotted(e) for e in st.targets[0].elts] if isinstance(
        st, ast.Assign) and isinstance(st.targets[0], ast.Tuple) else []
    good = False
    path_block = None
    for parent in ast.walk(fn.node):
      for field in ('body', 'orelse'):
        blk = getattr(parent, field, None)
        if isinstance(blk, list) and st in blk:
          path_block = blk
    if path_block is not None and len(tg) == 2:
      for s in path_block[path_block.index(st) + 1:]:
        if isinstance(s, ast.Return) and isinstance(s.value, ast.Tuple):
          els = s.value.elts
          good = all(isinstance(e, ast.UnaryOp) and isinstance(e.op, ast.USub)
                     and dotted(e.operand) == t for e, t in zip(els, tg))
    res.check(good, 'M1', '%s|results' % q, fn.loc(st),
              'the mirrored result is negated back: return -bias, -heights',
              'the result of the mirrored projection is not negated back in '
              'the same order')


def _size_guards(prog, res, fn, body):
  """T2: group g of the convexity projection pairs heights[g::2] with
  heights[g+1::2]; a pair exists as soon as there are g + 2 heights, so the
  size guard around the call must hold for every size >= g + 2 (the start
  offsets are read from the slices of _project_convexity)."""
  callee = prog.function(PL + '._project_convexity')
  res.analysed(callee)
  offs = []
  for s in ast.walk(callee.node):
    if isinstance(s, ast.Subscript) and dotted(s.value) == 'heights' and \
        isinstance(s.slice, ast.Slice) and s.slice.lower is not None and \
        const_value(s.slice.step, None) == 2:
      lo = s.slice.lower
      if dotted(lo) == 'constraint_group':
        offs.append(0)
      elif isinstance(lo, ast.BinOp) and isinstance(lo.op, ast.Add) and \
          dotted(lo.left) == 'constraint_group' and isinstance(
              const_value(lo.right, None), int):
        offs.append(const_value(lo.right))
  if sorted(offs) != [0, 1]:
    raise AnalysisError('_project_convexity: the two strided slices of '
                        'heights (constraint_group, constraint_group + 1) '
                        'were not found: %s' % offs)
  width = max(offs) + 1
  n = 0
  for c in ast.walk(body):
    if not isinstance(c, ast.Call) or prog.resolve_call(fn, c) is not callee:
      continue
    kw = {k.arg: k.value for k in c.keywords}
    g = const_value(kw.get('constraint_group'), None)
    if not isinstance(g, int):
      raise AnalysisError('%s: constraint_group is not a literal' % fn.loc(c))
    need = g + width
    thr = 0
    for t, pol in structural_guards(body, c) or []:
      if isinstance(t, ast.Compare) and len(t.ops) == 1 and norm_text(
          t.left).replace(' ', '') == 'heights.shape[0]':
        k = const_value(t.comparators[0], None)
        op = t.ops[0]
        if not isinstance(k, int) or not pol:
          raise AnalysisError('%s: size guard `%s` not understood' % (
              fn.loc(t), norm_text(t)))
        if isinstance(op, ast.GtE):
          thr = max(thr, k)
        elif isinstance(op, ast.Gt):
          thr = max(thr, k + 1)
        else:
          raise AnalysisError('%s: size guard `%s` not understood' % (
              fn.loc(t), norm_text(t)))
    n += 1
    res.check(thr <= need, 'T2', '%s|convexity-group-%d' % (fn.qualname, g),
              fn.loc(c),
              'group %d is projected whenever there are >= %d heights (first '
              'pair exists from %d)' % (g, thr, need),
              'convexity group %d is only projected for >= %d heights but '
              'its first pair heights[%d], heights[%d] exists from %d '
              'heights: calibrators with exactly %d keypoints keep violated '
              'convexity' % (g, thr, g, g + 1, need, need + 1))
  return n


def _bound_influence(prog, res):
  """K4 on the strict finalisation: every configured bound reaches the
  returned kernel in every (monotonicity, convexity, min kind, max kind)."""
  fin = prog.function(PL + '._finalize_constraints')
  G = influence.GIVEN
  cases = []
  for mono in (-1, 0, 1):
    for conv in (-1, 0, 1):
      for cmin in ('NONE', 'BOUND', 'CLAMPED'):
        for cmax in ('NONE', 'BOUND', 'CLAMPED'):
          if cmin == 'NONE' and cmax == 'NONE':
            continue
          cases.append({'monotonicity': mono, 'convexity': conv,
                        'output_min_constraints': cmin,
                        'output_max_constraints': cmax,
                        'output_min': G if cmin != 'NONE' else None,
                        'output_max': G if cmax != 'NONE' else None})
  influence.check_bound_influence(
      prog, res, fin, cases, ('output_min', 'output_max'),
      group_by=('monotonicity',))
